"""Piecewise-affine summaries of small integer functions (abstract interpretation: interval partition x affine forms).

For a function whose result depends on one integer parameter `x` only through comparisons with literals and `+ - *` with
literals (constructor tags, flag conversions, ...), every path from entry to return is enumerated with
  * the set of values of x for which the path is taken (a union of intervals, narrowed at each comparison / switch), and
  * the abstract value of every local along it: a*x + b, a literal, None / Some(v), a tuple or an ADT aggregate of those.
The result is a finite table [(intervals of x, returned abstract value)] that a property module compares with what the property
states.  No solver, no execution: comparisons are decided on intervals, arithmetic is on the coefficients of affine forms.
Anything outside the fragment makes the value `unknown` (never a verdict by itself).
"""
import re

from . import mir

UNKNOWN = ("unknown",)


class NotInFragment(Exception):
    pass


def aff(a, b):
    return ("aff", a, b)


def is_aff(v):
    return isinstance(v, tuple) and v and v[0] == "aff"


def _isect(ivs, lo, hi):
    out = []
    for a, b in ivs:
        x, y = max(a, lo), min(b, hi)
        if x <= y:
            out.append((x, y))
    return out


def _minus(ivs, lo, hi):
    out = []
    for a, b in ivs:
        if hi < a or lo > b:
            out.append((a, b))
            continue
        if a < lo:
            out.append((a, lo - 1))
        if b > hi:
            out.append((hi + 1, b))
    return out


def _cmp_split(op, a, b, c, ivs, lo_dom, hi_dom):
    """intervals of x (within ivs) where `a*x + b  op  c` is true / false, for a in {1, -1, 0}"""
    if a == 0:
        val = {"Lt": b < c, "Le": b <= c, "Gt": b > c, "Ge": b >= c, "Eq": b == c, "Ne": b != c}[op]
        return (ivs, []) if val else ([], ivs)
    if a not in (1, -1):
        raise NotInFragment("comparison of a scaled parameter")
    # a*x + b op c  <=>  x op' (c - b)/a
    k = (c - b) * a   # a = +-1
    if a == -1:
        op = {"Lt": "Gt", "Le": "Ge", "Gt": "Lt", "Ge": "Le", "Eq": "Eq", "Ne": "Ne"}[op]
    if op == "Lt":
        t = _isect(ivs, lo_dom, k - 1)
    elif op == "Le":
        t = _isect(ivs, lo_dom, k)
    elif op == "Gt":
        t = _isect(ivs, k + 1, hi_dom)
    elif op == "Ge":
        t = _isect(ivs, k, hi_dom)
    elif op == "Eq":
        t = _isect(ivs, k, k)
    else:
        t = _minus(ivs, k, k)
    f = list(ivs)
    for lo, hi in t:
        f = _minus(f, lo, hi)
    return t, f


def summarize(fn, param_local, lo_dom, hi_dom, max_paths=400):
    """[(intervals, value of _0)] over all paths; raises NotInFragment when the control flow leaves the fragment"""
    blocks = fn["blocks"]
    results = []
    # state: (block, intervals, env, visits)
    stack = [(0, [(lo_dom, hi_dom)], {param_local: aff(1, 0)}, {})]
    npaths = 0
    while stack:
        bb, ivs, env, visits = stack.pop()
        if not ivs:
            continue
        visits = dict(visits)
        visits[bb] = visits.get(bb, 0) + 1
        if visits[bb] > 3:
            raise NotInFragment("loop")
        env = dict(env)
        b = blocks[bb]
        for s in b["s"]:
            v = _eval_rv(s["rv"], env)
            lhs = s["lhs"]
            if not lhs["p"]:
                env[lhs["l"]] = v
            else:
                # field store into an aggregate being built
                base = env.get(lhs["l"])
                fld = [p for p in lhs["p"] if p[0] == "f"]
                if base is not None and base[0] in ("agg", "tuple") and len(fld) == 1 and len(lhs["p"]) == 1:
                    nb = (base[0], base[1], base[2], dict(base[3])) if base[0] == "agg" else ("tuple", list(base[1]))
                    if base[0] == "agg":
                        nb[3][fld[0][1]] = v
                    else:
                        i = int(fld[0][1])
                        while len(nb[1]) <= i:
                            nb[1].append(UNKNOWN)
                        nb[1][i] = v
                    env[lhs["l"]] = nb
                else:
                    env[lhs["l"]] = UNKNOWN
        t = b["t"]
        k = t["k"]
        if k == "return":
            npaths += 1
            if npaths > max_paths:
                raise NotInFragment("too many paths")
            results.append((ivs, env.get(0, UNKNOWN)))
        elif k in ("goto", "drop"):
            stack.append((t["t"], ivs, env, visits))
        elif k == "assert":
            stack.append((t["t"], ivs, env, visits))
        elif k == "call":
            if not t["dest"]["p"]:
                env[t["dest"]["l"]] = _eval_call(t, env)
            if t["t"] is not None:
                stack.append((t["t"], ivs, env, visits))
        elif k == "switch":
            d = _eval_op(t["discr"], env)
            if d[0] == "cmp":
                _, op, (a, bb_), c = d
                tr, fa = _cmp_split(op, a, bb_, c, ivs, lo_dom, hi_dom)
                tm = dict((v, tb) for v, tb in t["targets"])
                stack.append((tm.get(1, t["otherwise"]), tr, env, visits))
                stack.append((tm.get(0, t["otherwise"]), fa, env, visits))
            elif d[0] == "bool" and d[1] is not None:
                tm = dict((v, tb) for v, tb in t["targets"])
                stack.append((tm.get(1 if d[1] else 0, t["otherwise"]), ivs, env, visits))
            elif is_aff(d):
                a, b0 = d[1], d[2]
                if a == 0:
                    tm = dict((v, tb) for v, tb in t["targets"])
                    stack.append((tm.get(b0, t["otherwise"]), ivs, env, visits))
                elif a in (1, -1):
                    rest = list(ivs)
                    for v, tb in t["targets"]:
                        tr, _ = _cmp_split("Eq", a, b0, v, ivs, lo_dom, hi_dom)
                        for lo, hi in tr:
                            rest = _minus(rest, lo, hi)
                        stack.append((tb, tr, env, visits))
                    stack.append((t["otherwise"], rest, env, visits))
                else:
                    raise NotInFragment("switch on a scaled parameter")
            elif d[0] == "discr_of":
                # discriminant of a known Option / aggregate
                inner = d[1]
                tm = dict((v, tb) for v, tb in t["targets"])
                if inner[0] == "none":
                    stack.append((tm.get(0, t["otherwise"]), ivs, env, visits))
                elif inner[0] == "some":
                    stack.append((tm.get(1, t["otherwise"]), ivs, env, visits))
                elif inner[0] == "optcmp":
                    # Some exactly where the condition holds (`x.checked_sub(c)`: where x >= c)
                    _, (op, (a, b0), c0), _payload = inner
                    tr, fa = _cmp_split(op, a, b0, c0, ivs, lo_dom, hi_dom)
                    stack.append((tm.get(1, t["otherwise"]), tr, env, visits))
                    stack.append((tm.get(0, t["otherwise"]), fa, env, visits))
                else:
                    raise NotInFragment("switch on an unknown discriminant")
            else:
                raise NotInFragment("switch on a value that does not depend on the parameter alone")
        elif k == "unreachable":
            continue
        else:
            raise NotInFragment("terminator " + k)
    return results


def _eval_op(op, env):
    c = mir.op_const(op)
    if c is not None:
        if "int" in c:
            return aff(0, c["int"])
        return UNKNOWN
    pl = mir.op_place(op)
    if pl is None:
        return UNKNOWN
    v = env.get(pl["l"], UNKNOWN)
    for p in pl["p"]:
        if p[0] == "d":
            continue
        if p[0] == "dc":
            continue
        if p[0] == "f":
            if v[0] == "tuple":
                i = int(p[1]) if p[1].isdigit() else -1
                v = v[1][i] if 0 <= i < len(v[1]) else UNKNOWN
            elif v[0] == "agg":
                v = v[3].get(p[1], UNKNOWN)
            elif v[0] == "some" and p[1] == "0":
                v = v[1]
            elif v[0] == "optcmp" and p[1] == "0":
                # read behind the Some edge of the switch that split on the condition
                v = v[2]
            else:
                v = UNKNOWN
        else:
            v = UNKNOWN
    return v


def _eval_rv(rv, env):
    k = rv["k"]
    if k == "use":
        return _eval_op(rv["op"], env)
    if k == "cast":
        v = _eval_op(rv["op"], env)
        if rv.get("ck") == "IntToInt":
            if v[0] == "bool" and v[1] is not None:
                return aff(0, 1 if v[1] else 0)
            return v
        return UNKNOWN
    if k == "ref":
        return _eval_op({"cp": rv["pl"]}, env)
    if k == "binop":
        a, b = _eval_op(rv["a"], env), _eval_op(rv["b"], env)
        op = rv["op"]
        if not (is_aff(a) and is_aff(b)):
            return UNKNOWN
        base = op.replace("WithOverflow", "")
        if base in ("Add", "Sub"):
            sg = 1 if base == "Add" else -1
            r = aff(a[1] + sg * b[1], a[2] + sg * b[2])
        elif base == "Mul":
            if a[1] == 0:
                r = aff(a[2] * b[1], a[2] * b[2])
            elif b[1] == 0:
                r = aff(b[2] * a[1], b[2] * a[2])
            else:
                return UNKNOWN
        elif base in ("Lt", "Le", "Gt", "Ge", "Eq", "Ne"):
            # normalise to  (a1-b1)*x + (a2-b2)  op  0  -> keep as cmp of an affine form with a literal
            return ("cmp", base, (a[1] - b[1], a[2] - b[2]), 0)
        else:
            return UNKNOWN
        if op.endswith("WithOverflow"):
            return ("tuple", [r, ("bool", False)])
        return r
    if k == "unop":
        a = _eval_op(rv["a"], env)
        if rv.get("op") == "Neg" and is_aff(a):
            return aff(-a[1], -a[2])
        if rv.get("op") == "Not" and a[0] == "cmp":
            inv = {"Lt": "Ge", "Le": "Gt", "Gt": "Le", "Ge": "Lt", "Eq": "Ne", "Ne": "Eq"}
            return ("cmp", inv[a[1]], a[2], a[3])
        return UNKNOWN
    if k == "agg":
        ops = [_eval_op(o, env) for o in rv["ops"]]
        if "tuple" in rv:
            return ("tuple", ops)
        if "adt" in rv:
            short = rv["adt"].rsplit("::", 1)[-1]
            if short == "Option" and rv["variant"] == "None":
                return ("none",)
            if short == "Option" and rv["variant"] == "Some":
                return ("some", ops[0] if ops else UNKNOWN)
            return ("agg", rv["adt"], rv["variant"], dict(zip(rv.get("fields") or [], ops)))
        return UNKNOWN
    if k == "discr":
        v = _eval_op({"cp": rv["pl"]}, env)
        if v[0] in ("none", "some", "optcmp"):
            return ("discr_of", v)
        return UNKNOWN
    return UNKNOWN


def _eval_call(t, env):
    c = t.get("callee") or ""
    if c in ("std::convert::From::from", "std::convert::Into::into", "std::clone::Clone::clone") and t["args"]:
        v = _eval_op(t["args"][0], env)
        if is_aff(v) or v[0] in ("none", "some", "optcmp"):
            return v
    last = c.split("::")[-1]
    if last in ("checked_sub", "checked_add") and re.match(r"^core::num::<impl [ui]\d+|^core::num::<impl [ui]size", c) and len(t["args"]) == 2:
        a, b = _eval_op(t["args"][0], env), _eval_op(t["args"][1], env)
        if is_aff(a) and is_aff(b) and b[1] == 0 and last == "checked_sub" and c.startswith("core::num::<impl u"):
            # unsigned x.checked_sub(c): Some(x - c) exactly where x - c >= 0
            d = aff(a[1] - b[1], a[2] - b[2])
            return ("optcmp", ("Ge", (d[1], d[2]), 0), d)
    return UNKNOWN


def show(v):
    if is_aff(v):
        a, b = v[1], v[2]
        if a == 0:
            return str(b)
        return ("x" if a == 1 else "%d*x" % a) + ((" + %d" % b) if b > 0 else (" - %d" % -b if b < 0 else ""))
    if v[0] == "none":
        return "None"
    if v[0] == "some":
        return "Some(%s)" % show(v[1])
    if v[0] == "tuple":
        return "(%s)" % ", ".join(show(x) for x in v[1])
    if v[0] == "agg":
        return "%s::%s{%s}" % (v[1].split("::")[-1], v[2], ", ".join("%s: %s" % (k, show(x)) for k, x in v[3].items()))
    return v[0]


def value_at(v, x):
    """concrete value of an affine abstract value at a point (for single-point pieces)"""
    return v[1] * x + v[2]


def same_on(v1, v2, lo, hi):
    """are two abstract scalars equal on [lo, hi]?"""
    if v1[0] != v2[0]:
        return False
    if is_aff(v1):
        if lo == hi:
            return value_at(v1, lo) == value_at(v2, lo)
        return (v1[1], v1[2]) == (v2[1], v2[2])
    if v1[0] == "none":
        return True
    if v1[0] == "some":
        return same_on(v1[1], v2[1], lo, hi)
    return False
