"""E1 -- PANIC: reachable panic-site inventory.

Enumerates, in the workspace call-graph closure of given entry points, every construct that can panic:
  K1  calls into core::panicking / std::rt panics (panic!, todo!, unreachable!, unimplemented!, assert!)
  K2  Option/Result unwrap / expect (and *_err variants)
  K3  MIR Assert terminators (bounds check, arithmetic overflow, division/remainder by zero)
  K4  library calls documented to panic on their argument (reviewed table below)
Each site gets a stable key (function, kind, callee/assert kind, detail, multiplicity).  Discharge is done by the
property modules (grammar facts, dominating guards, reviewed rows).
"""
from . import mir
from .common import CallGraph, is_derive, site_in_derive

K1_PREFIXES = ("core::panicking::", "std::rt::begin_panic", "std::rt::panic_fmt", "std::panicking::begin_panic",
               "core::panicking::panic", "std::process::abort", "std::process::exit", "core::option::expect_failed",
               "core::option::unwrap_failed", "core::result::unwrap_failed")

K2_NAMES = {
    "std::option::Option::<T>::unwrap": "Option::unwrap",
    "std::option::Option::<T>::expect": "Option::expect",
    "std::result::Result::<T, E>::unwrap": "Result::unwrap",
    "std::result::Result::<T, E>::expect": "Result::expect",
    "std::result::Result::<T, E>::unwrap_err": "Result::unwrap_err",
    "std::result::Result::<T, E>::expect_err": "Result::expect_err",
}

K3_KINDS = ("BoundsCheck", "Overflow", "OverflowNeg", "DivisionByZero", "RemainderByZero")

# K4: declared callee (as printed by the driver) -> why it can panic.  Matched on the *declared* callee and, for
# trait methods (Index, From), on the resolved impl.
K4_DECLARED = {
    "core::slice::<impl [T]>::copy_from_slice": "panics when lengths differ",
    "core::slice::<impl [T]>::split_at": "panics when mid > len",
    "core::slice::<impl [T]>::clone_from_slice": "panics when lengths differ",
    "core::str::<impl str>::split_at": "panics when mid is out of bounds / not on a char boundary",
    "std::vec::Vec::<T, A>::remove": "panics when index is out of bounds",
    "std::vec::Vec::<T, A>::insert": "panics when index > len",
    "std::vec::Vec::<T, A>::swap_remove": "panics when index is out of bounds",
    "std::vec::Vec::<T, A>::drain": "panics when the range is out of bounds",
    "std::vec::Vec::<T, A>::split_off": "panics when at > len",
    "std::string::String::remove": "panics when idx is out of bounds",
    "std::cell::RefCell::<T>::borrow_mut": "panics when already borrowed",
    "std::cell::RefCell::<T>::borrow": "panics when mutably borrowed",
    "pest::pratt_parser::PrattParserMap::<'pratt, 'a, 'i, R, F, T>::parse": "panics when the pair sequence is not prefix* primary postfix* (infix ...)* or an operator is unregistered",
    "core::slice::<impl [T]>::chunks": "panics when chunk_size is 0",
    "std::iter::Iterator::step_by": "panics when step is 0",
}
K4_RESOLVED_SUBSTR = [
    ("as std::ops::Index<", "indexing panics when the index / key / range is out of bounds or absent"),
    ("as std::ops::IndexMut<", "indexing panics when the index / key / range is out of bounds or absent"),
    ("impl std::ops::Index<", "indexing panics when the index / range is out of bounds"),
    ("impl std::ops::IndexMut<", "indexing panics when the index / range is out of bounds"),
    ("pallas_primitives::Hash<BYTES> as std::convert::From<&[u8]>>::from", "Hash::<N>::from(&[u8]) copies with copy_from_slice: panics unless len == N"),
    ("pallas_crypto::hash::Hash<BYTES> as std::convert::From<&[u8]>>::from", "Hash::<N>::from(&[u8]) copies with copy_from_slice: panics unless len == N"),
]


class Site:
    __slots__ = ("fn", "bb", "kind", "what", "detail", "line", "exp", "term", "mult")

    def __init__(self, fn, bb, kind, what, detail, line, exp, term):
        self.fn = fn
        self.bb = bb
        self.kind = kind
        self.what = what
        self.detail = detail
        self.line = line
        self.exp = exp
        self.term = term
        self.mult = 1

    def label(self):
        """what, normalised so that keys do not depend on the concrete container type"""
        if self.kind == "K4" and ("ops::Index<" in self.what or "ops::IndexMut<" in self.what):
            return "str Index::index" if "for str" in self.what else "Index::index"
        return self.what

    def key(self):
        k = "%s|%s|%s" % (self.fn["path"], self.kind, self.label())
        if self.detail:
            k += "|" + self.detail
        if self.mult > 1:
            k += "|#%d" % self.mult
        return k


def macro_of(exp):
    """innermost user-visible macro name of an expansion chain: todo / unreachable / panic / assert / ..."""
    for part in exp.split("<"):
        if part.startswith("macro:"):
            n = part[6:]
            if n in ("todo", "unreachable", "unimplemented", "panic", "assert", "assert_eq", "assert_ne", "debug_assert",
                     "debug_assert_eq", "debug_assert_ne", "bail_report", "dbg"):
                return n
    for part in exp.split("<"):
        if part.startswith("macro:"):
            return part[6:]
    return ""


def panic_message(fn, bb):
    """string literal feeding the panic call in this or the preceding blocks (best effort, for keys)"""
    b = fn["blocks"][bb]
    t = b["t"]
    for a in t.get("args", ()):
        c = mir.op_const(a)
        if c and "str" in c:
            return c["str"][:60]
    return ""


def sites_of(fn):
    out = []
    live = mir.live_blocks(fn)
    for bi, b in enumerate(fn["blocks"]):
        if b["cleanup"] or bi not in live:
            continue
        t = b["t"]
        if t["k"] == "assert":
            if t["msg"] in K3_KINDS:
                out.append(Site(fn, bi, "K3", t["msg"], "", t["line"], t["exp"], t))
        elif t["k"] == "call":
            callee = t.get("callee") or ""
            resolved = t.get("resolved") or ""
            if callee.startswith(K1_PREFIXES):
                m = macro_of(t["exp"]) or callee.split("::")[-1]
                out.append(Site(fn, bi, "K1", m, panic_message(fn, bi), t["line"], t["exp"], t))
            elif callee in K2_NAMES:
                # what is being unwrapped: the callee that produced it, for a meaningful key
                out.append(Site(fn, bi, "K2", K2_NAMES[callee], "", t["line"], t["exp"], t))
            elif callee in K4_DECLARED:
                out.append(Site(fn, bi, "K4", callee, "", t["line"], t["exp"], t))
            elif callee == "std::convert::Into::into" and len(t.get("gargs") or []) >= 2 and t["gargs"][0] in ("&[u8]",) \
                    and ("pallas_primitives::Hash<" in t["gargs"][1] or "pallas_crypto::hash::Hash<" in t["gargs"][1]):
                out.append(Site(fn, bi, "K4", "<%s as From<&[u8]>>::from via into()" % t["gargs"][1].split("::")[-1], "", t["line"], t["exp"], t))
            else:
                for sub, why in K4_RESOLVED_SUBSTR:
                    if sub in resolved or sub in callee:
                        out.append(Site(fn, bi, "K4", resolved or callee, "", t["line"], t["exp"], t))
                        break
    return out


def _through_wrapper(F, o, depth=0):
    """a small function of the workspace that only hands on what one call returns (`fn position_of(&self, x) -> Option<usize>
    { self.0.iter().position(..) }`): the name of that inner call - the site keeps its identity when the search is wrapped"""
    if F is None or depth > 2:
        return None
    r = (o.term or {}).get("resolved") or o.callee
    g = F.fns.get(r)
    if g is None or not g["crate"].startswith("tx3") or g.get("impl_trait") or len(g["blocks"]) > 40 or g.get("is_async"):
        return None
    dg = mir.DefUse(g)
    inner = mir.provenance(g, dg, {"l": 0, "p": []})
    calls = [x for x in inner if x.kind == "call"]
    if len(inner) == 1 and len(calls) == 1:
        return _through_wrapper(F, calls[0], depth + 1) or calls[0].callee
    return None


def unwrap_source(fn, du, site, F=None):
    """for a K2 site: short description of what produced the unwrapped value"""
    t = site.term
    if not t["args"]:
        return ""
    orig = mir.provenance(fn, du, t["args"][0])
    names = []
    for o in orig:
        if o.kind == "call":
            n = _through_wrapper(F, o) or o.callee
            n = n.split("::<")[0] if n.endswith(">") and "::<" in n and not n.startswith("<") else n
            names.append(n.split("::")[-1] if not n.startswith("<") else n.rsplit("::", 1)[-1])
        elif o.kind == "arg":
            names.append("arg%d%s" % (o.local, "".join(o.proj)))
        elif o.kind == "const":
            names.append("const")
        else:
            names.append(o.kind)
    return ",".join(sorted(set(names)))


def inventory(F, cg, roots, crates=None):
    """(reachable fn paths, [Site]) in the closure of roots; multiplicity-indexed keys"""
    reach = cg.reachable(roots)
    sites = []
    n_fns = 0
    for p in sorted(reach):
        f = F.fns[p]
        if crates and f["crate"] not in crates:
            continue
        # coroutine bodies (async fns): the state-machine form hides provenance; use the pre-transform MIR
        f = F.built.get(p, f)
        n_fns += 1
        if is_derive(f):
            continue
        du = None
        for s in sites_of(f):
            if site_in_derive(s.exp):
                continue
            if s.kind == "K2":
                du = du or mir.DefUse(f)
                s.detail = unwrap_source(f, du, s, F)
            sites.append(s)
    # multiplicity index within identical keys
    seen = {}
    for s in sites:
        base = s.key()
        n = seen.get(base, 0) + 1
        seen[base] = n
        s.mult = n
    return reach, n_fns, sites
