"""E5 -- KEYS: producer/consumer string-table agreement for ad-hoc directives.

Producers: `AdHocDirective { name, data }` aggregates built by the lowering (tx3-lang): the constant name and the constant
keys placed in `data` (directly, or through the `(key, value)` tuples returned by the field enums' IntoLower impls that are
collected into the map).
Consumers: in tx3-cardano, constants compared with `.name` and the constants used to look up `.data` in the functions that
handle the directives selected by that comparison.
"""
from . import mir
from .common import is_derive, site_in_derive, with_closures, CallGraph

ADHOC = "tx3_tir::model::v1beta0::AdHocDirective"


def _tuple_keys(F, f):
    """constant first components of 2-tuples built in f (and its closures)"""
    keys = set()

    def _want(t, callee):
        # small helpers of the lowering that build the (key, value) pair from a key they are given: `lower_keyed(ctx, "to", x)`
        return callee["crate"] == f["crate"] and not callee.get("impl_trait") and not callee.get("trait_default") and len(callee["blocks"]) <= 40
    for b0 in with_closures(F, f):
        b = mir.inline_calls(F, b0, want=_want, depth=2)
        du = mir.DefUse(b)
        for bi, si, s in mir.stmts(b):
            rv = s["rv"]
            if rv["k"] == "agg" and "tuple" in rv and len(rv["ops"]) == 2:
                for o in mir.provenance(b, du, rv["ops"][0]):
                    if o.kind == "const" and "str" in o.const:
                        keys.add(o.const["str"])
    return keys


def producers(F):
    """name -> {"keys": set, "fn": path, "line": n}"""
    out = {}
    for f in F.fns.values():
        if f["crate"] != "tx3_lang" or is_derive(f):
            continue
        du = None
        for bi, si, s in mir.stmts(f):
            rv = s["rv"]
            if rv["k"] != "agg" or rv.get("adt") != ADHOC or site_in_derive(s["exp"]):
                continue
            du = du or mir.DefUse(f)
            norg = mir.provenance(f, du, rv["ops"][rv["fields"].index("name")])
            names = [o.const["str"] for o in norg if o.kind == "const" and "str" in o.const]
            if len(names) != 1 and norg and all(o.kind == "arg" for o in norg) and f["def_kind"] != "Closure":
                # a shared helper `fn lower_keyed_directive(name: &str, fields: &[F], ..)`: each caller is a producer, with the
                # name it passes and the keys of the field enum it instantiates the helper with
                from .common import callers_index
                pair_impls0 = {g.get("impl_self"): g for g in F.fns.values()
                               if g.get("impl_trait") == "tx3_lang::lowering::IntoLower" and g.get("name") == "into_lower" and g["locals"]
                               and g["locals"][0].startswith("std::result::Result<(std::string::String,")}
                resolved_all = True
                for caller, ct in callers_index(F).get(f["path"], []):
                    cdu = mir.DefUse(caller)
                    cn = set()
                    for o in norg:
                        if o.local - 1 < len(ct["args"]):
                            for oc in mir.provenance(caller, cdu, ct["args"][o.local - 1]):
                                sv = mir.promoted_str(F, oc.const) if oc.kind == "const" else None
                                if sv is not None:
                                    cn.add(sv)
                    if len(cn) != 1:
                        resolved_all = False
                        continue
                    keys = set(_tuple_keys(F, f)) | set(_tuple_keys(F, caller))
                    for ga in ct.get("gargs") or []:
                        if ga in pair_impls0:
                            keys |= _tuple_keys(F, pair_impls0[ga])
                    # the data map may come from another helper of the caller, instantiated with the field enum
                    # (`lower_fields::<PublishField>(ctx, &self.fields)` next to `directive("cardano_publish", data)`), or from
                    # the field enum's into_lower called directly in the caller's closures
                    for cb in with_closures(F, caller):
                        for _, t2 in mir.calls(cb):
                            for ga in t2.get("gargs") or []:
                                if ga in pair_impls0:
                                    keys |= _tuple_keys(F, pair_impls0[ga])
                            r2 = t2.get("resolved") or ""
                            if r2 in F.fns and F.fns[r2].get("impl_self") in pair_impls0 and F.fns[r2].get("name") == "into_lower":
                                keys |= _tuple_keys(F, F.fns[r2])
                    ent = out.setdefault(cn.pop(), {"keys": set(), "fn": caller["path"], "line": ct["line"], "file": caller["file"]})
                    ent["keys"] |= keys
                if resolved_all and callers_index(F).get(f["path"]):
                    continue
            if len(names) != 1:
                out.setdefault("<non-constant name in %s>" % f["path"], {"keys": set(), "fn": f["path"], "line": s["line"], "file": f["file"]})
                continue
            keys = set(_tuple_keys(F, f))
            # field enums whose into_lower is mapped and collected into the data map - directly, or inside a generic helper
            # of the crate that is instantiated with the field enum (`lower_directive_data::<PlutusWitnessField>(..)`)
            pair_impls = {}
            for g in F.fns.values():
                if g.get("impl_trait") == "tx3_lang::lowering::IntoLower" and g.get("name") == "into_lower" and g["locals"] and \
                        g["locals"][0].startswith("std::result::Result<(std::string::String,"):
                    pair_impls[g.get("impl_self")] = g
            for b in with_closures(F, f):
                for bj, t in mir.calls(b):
                    r = t.get("resolved") or ""
                    if t.get("trait") == "tx3_lang::lowering::IntoLower" and r in F.fns and r != f["path"]:
                        g = F.fns[r]
                        # only impls that return a (String, Expression) pair contribute keys
                        if g["locals"] and g["locals"][0].startswith("std::result::Result<(std::string::String,"):
                            keys |= _tuple_keys(F, g)
                    elif r in F.fns and F.fns[r]["crate"] == "tx3_lang" and not t.get("trait") and t.get("gargs"):
                        h = F.fns[r]
                        calls_generic_lower = any(t2.get("trait") == "tx3_lang::lowering::IntoLower" and not t2.get("resolved")
                                                  for hb in with_closures(F, h) for _, t2 in mir.calls(hb))
                        if calls_generic_lower:
                            for ga in t["gargs"]:
                                if ga in pair_impls:
                                    keys |= _tuple_keys(F, pair_impls[ga])
            ent = out.setdefault(names[0], {"keys": set(), "fn": f["path"], "line": s["line"], "file": f["file"]})
            ent["keys"] |= keys
    return out


def _is_name_compare(F, b, du, t):
    """`x.name.as_str() == <string>` (any PartialEq::eq between a `.name` and a string) -> [(literal, fn that supplies it, line)].
    The string may be a literal, or a parameter / captured variable of a helper (`fn directives(tx, name)`): then the
    literals are the ones the helper's callers pass, and the caller is the consumer."""
    from .common import outer_origins
    c = t.get("callee") or ""
    if not (c == "std::cmp::PartialEq::eq" or c.endswith("::eq")) or "PartialEq" not in (c + (t.get("resolved") or "") + (t.get("trait") or "")):
        return None
    sides = []
    for a in t["args"]:
        sides.append(mir.provenance(b, du, a))
    if len(sides) != 2:
        return None
    name_side = None
    for i, sd in enumerate(sides):
        if any(o.kind != "const" and ".name" in o.proj for o in sd):
            name_side = i
    if name_side is None:
        return None
    lits = []
    for fn2, o in outer_origins(F, b, t["args"][1 - name_side], depth=3):
        sv = mir.promoted_str(F, o.const) if o.kind == "const" else None
        if sv is not None:
            lits.append((sv, fn2, t["line"] if fn2 is b else fn2["line"]))
    return lits or None


def consumers(F):
    """name -> {"keys": set, "fns": set(owner fn paths), "sites": [(file, line)]}"""
    out = {}
    cg = CallGraph(F, callbacks=False)
    # (literal, function that supplies it) pairs: the supplier is the function that selects directives of that name
    by_supplier = {}
    for f in F.fns.values():
        if f["crate"] != "tx3_cardano" or is_derive(f):
            continue
        du = None
        for bi, t in mir.calls(f):
            c = t.get("callee") or ""
            if not (c == "std::cmp::PartialEq::eq" or c.endswith("::eq")):
                continue
            du = du or mir.DefUse(f)
            for lit, fn2, line in (_is_name_compare(F, f, du, t) or ()):
                owner = fn2.get("owner") or fn2["path"]
                if owner.endswith("::{closure#0}") and owner[:-len("::{closure#0}")] in F.fns:
                    owner = owner[:-len("::{closure#0}")]
                by_supplier.setdefault(owner, []).append((lit, fn2["file"], line))
    # a predicate helper (`fn is_withdrawal_directive(d: &AdHocDirective) -> bool { d.name.as_str() == "withdrawal" }`) selects
    # nothing itself: the consumers are the functions that filter with it
    from .common import callers_index
    for owner in list(by_supplier):
        f = F.fns.get(owner)
        if f is None or f["def_kind"] == "Closure" or f["locals"][0] != "bool" or len(f["blocks"]) > 10:
            continue
        users = set()
        for caller, ct in callers_index(F).get(owner, []):
            o2 = caller.get("owner") or caller["path"]
            while o2.endswith("}") and "::{closure#" in o2 and o2.rsplit("::{closure#", 1)[0] in F.fns:
                o2 = o2.rsplit("::{closure#", 1)[0]
            users.add(o2)
        # also handed over as a function value: `.filter(is_withdrawal_directive)`
        for g in F.fns.values():
            if g["crate"] != "tx3_cardano":
                continue
            for _, t in mir.calls(g):
                if owner in (t.get("fnrefs") or ()):
                    o2 = g.get("owner") or g["path"]
                    users.add(o2)
        if users:
            entries = by_supplier.pop(owner)
            for u in users:
                by_supplier.setdefault(u, []).extend(entries)
    keys_of = {}
    for owner, names in by_supplier.items():
        if owner not in F.fns:
            continue
        f = F.fns[owner]
        # keys read by this function, its closures and the tx3-cardano functions they call
        reach = cg.reachable([f["path"]] + [c["path"] for c in with_closures(F, f)[1:]])
        keys = set()
        for p in reach:
            g = F.fns[p]
            if g["crate"] != "tx3_cardano":
                continue
            du = mir.DefUse(g)
            for bi, t in mir.calls(g):
                c = t.get("callee") or ""
                r = t.get("resolved") or ""
                if c.endswith("BTreeMap::<K, V, A>::get") or c.endswith("HashMap::<K, V, S, A>::get") or ("ops::Index<" in r and ("BTreeMap" in r or "HashMap" in r)):
                    recv = mir.provenance(g, du, t["args"][0])
                    if not any(".data" in o.proj for o in recv):
                        continue
                    for o in mir.provenance(g, du, t["args"][1]):
                        if o.kind == "const" and "str" in o.const:
                            keys.add(o.const["str"])
                        elif o.kind == "arg" and g["def_kind"] != "Closure":
                            # `fn required_field(adhoc, key: &str, ..)`: the keys are the constants passed by the callers
                            # that belong to this consumer's closure
                            from .common import callers_index
                            for caller, ct in callers_index(F).get(p, []):
                                if caller["path"] not in reach and (caller.get("owner") or "") not in reach:
                                    continue
                                if o.local - 1 < len(ct["args"]):
                                    cdu = mir.DefUse(caller)
                                    for oc in mir.provenance(caller, cdu, ct["args"][o.local - 1]):
                                        sv = mir.promoted_str(F, oc.const) if oc.kind == "const" else None
                                        if sv is not None:
                                            keys.add(sv)
        for lit, file, line in names:
            ent = out.setdefault(lit, {"keys": set(), "fns": set(), "sites": []})
            ent["keys"] |= keys
            ent["fns"].add(f["path"])
            ent["sites"].append((file, line, f["path"]))
    return out
