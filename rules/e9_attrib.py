"""E9 -- F-ATTRIB / field tables: which source field feeds which target field.

`deep_sources` is a backward "derives-from" walk that, unlike mir.provenance, also crosses calls (a call result derives
from all of its arguments) and closures' captured values; it collects the first-level fields of a given local (usually
`self`) that can reach an operand.  Used to check that a rebuilt value's field f is fed from source field f (no two
same-typed fields swapped) and that block field lookups (`find("to")`) land in the IR field they denote.
"""
from . import mir


def deep_sources(F, fn, du, op, self_local=1, max_nodes=400):
    """returns (set of first-level field names of self reaching op, set of const strs passed to `find`-like calls on the way,
    set of callee names crossed)"""
    fields = set()
    finds = set()
    crossed = set()
    seen = set()
    st = []
    pl = mir.op_place(op) if "l" not in op else op
    if pl is None:
        return fields, finds, crossed
    st.append((pl["l"], tuple(p for p in pl["p"])))
    n = 0
    while st and n < max_nodes:
        n += 1
        local, proj = st.pop()
        pkey = (local, tuple(str(p) for p in proj))
        if pkey in seen:
            continue
        seen.add(pkey)
        if local == self_local:
            for p in proj:
                if p[0] == "f":
                    fields.add(p[1])
                    break
            else:
                fields.add("<self>")
            continue
        for d in du.defs.get(local, []) + du.partial.get(local, []):
            if d[0] == "call":
                t = d[3]
                crossed.add(mir.callee_of(t))
                # constant string arguments (find("to"), get("amount"))
                for a in t["args"]:
                    for o in mir.provenance(fn, du, a):
                        if o.kind == "const":
                            sv = mir.promoted_str(F, o.const)
                            if sv is not None:
                                finds.add((mir.callee_of(t).split("::")[-1], sv))
                    apl = mir.op_place(a)
                    if apl is not None:
                        st.append((apl["l"], tuple(apl["p"])))
            else:
                rv = d[3]["rv"]
                k = rv["k"]
                if k in ("use", "cast", "repeat"):
                    apl = mir.op_place(rv["op"])
                    if apl is not None:
                        st.append((apl["l"], tuple(apl["p"])))
                elif k in ("ref", "rawptr", "discr"):
                    st.append((rv["pl"]["l"], tuple(rv["pl"]["p"])))
                elif k == "agg":
                    for o in rv["ops"]:
                        apl = mir.op_place(o)
                        if apl is not None:
                            st.append((apl["l"], tuple(apl["p"])))
                elif k in ("binop",):
                    for o in (rv["a"], rv["b"]):
                        apl = mir.op_place(o)
                        if apl is not None:
                            st.append((apl["l"], tuple(apl["p"])))
                elif k == "unop":
                    apl = mir.op_place(rv["a"])
                    if apl is not None:
                        st.append((apl["l"], tuple(apl["p"])))
    return fields, finds, crossed


def closure_captures(F, fn, du, closure_path):
    """operands captured by a closure aggregate in fn"""
    for bi, si, s in mir.stmts(fn):
        rv = s["rv"]
        if rv["k"] == "agg" and rv.get("closure") == closure_path:
            return rv["ops"]
    return []
