"""E9 -- F-ATTRIB / field tables: which source field feeds which target field.

`deep_sources` is a backward "derives-from" walk that, unlike mir.provenance, also crosses calls (a call result derives
from all of its arguments) and closures' captured values; it collects the first-level fields of a given local (usually
`self`) that can reach an operand.  Used to check that a rebuilt value's field f is fed from source field f (no two
same-typed fields swapped) and that block field lookups (`find("to")`) land in the IR field they denote.
"""
from . import mir


def deep_sources(F, fn, du, op, self_local=1, max_nodes=400, ops_out=None):
    """returns (set of first-level field names of self reaching op, set of const strs passed to `find`-like calls on the way,
    set of callee names crossed)"""
    fields = set()
    finds = set()
    crossed = set()
    seen = set()
    st = []
    pl = mir.op_place(op) if "l" not in op else op
    if pl is None:
        return fields, finds, crossed
    st.append((pl["l"], tuple(p for p in pl["p"])))
    n = 0
    while st and n < max_nodes:
        n += 1
        local, proj = st.pop()
        pkey = (local, tuple(str(p) for p in proj))
        if pkey in seen:
            continue
        seen.add(pkey)
        if local == self_local:
            for p in proj:
                if p[0] == "f":
                    fields.add(p[1])
                    break
            else:
                fields.add("<self>")
            continue
        for d in du.defs.get(local, []) + du.partial.get(local, []):
            if d[0] == "call":
                t = d[3]
                crossed.add(mir.callee_of(t))
                # constant string arguments (find("to"), get("amount"))
                for a in t["args"]:
                    for o in mir.provenance(fn, du, a):
                        if o.kind == "const":
                            sv = mir.promoted_str(F, o.const)
                            if sv is not None:
                                finds.add((mir.callee_of(t).split("::")[-1], sv))
                    apl = mir.op_place(a)
                    if apl is not None:
                        st.append((apl["l"], tuple(apl["p"])))
            else:
                rv = d[3]["rv"]
                k = rv["k"]
                if k in ("use", "cast", "repeat"):
                    apl = mir.op_place(rv["op"])
                    if apl is not None:
                        st.append((apl["l"], tuple(apl["p"])))
                elif k in ("ref", "rawptr", "discr"):
                    st.append((rv["pl"]["l"], tuple(rv["pl"]["p"])))
                elif k == "agg":
                    for o in rv["ops"]:
                        apl = mir.op_place(o)
                        if apl is not None:
                            st.append((apl["l"], tuple(apl["p"])))
                elif k in ("binop",):
                    if ops_out is not None:
                        ops_out.add(("binop", rv["op"]))
                    for o in (rv["a"], rv["b"]):
                        apl = mir.op_place(o)
                        if apl is not None:
                            st.append((apl["l"], tuple(apl["p"])))
                elif k == "unop":
                    if ops_out is not None:
                        ops_out.add(("unop", rv.get("op")))
                    apl = mir.op_place(rv["a"])
                    if apl is not None:
                        st.append((apl["l"], tuple(apl["p"])))
    return fields, finds, crossed


_WRAPPERS = ("std::result::Result", "std::ops::ControlFlow", "std::option::Option")
_THROUGH = ("std::ops::Try::branch", "std::convert::From::from", "std::convert::Into::into")


def deep_sources_fs(fn, du, op, self_local=1, max_nodes=600):
    """`deep_sources` with tuple components kept apart: which first-level fields of self reach `op`, where a value that
    travelled inside a tuple (`let (a, b) = map_pair(&self.x, &self.y, f)?`, the helper inlined) is followed into the component
    it was taken from only.  Wrappers of the `?` protocol (Ok / Continue / Some and their `.0`) are looked through.  Anything
    else (struct aggregates, calls, arithmetic) is followed into all of its operands, as `deep_sources` does."""
    fields = set()
    seen = set()

    def split(pl, pend):
        """(local, pending selections) for reading `pl` and then applying `pend`"""
        sel = []
        for q in pl["p"]:
            if q[0] == "dc" and q[1] in ("Break", "Err"):
                return None     # the error residual of `?`: carries no component of the Ok value
            if q[0] in ("d", "dc"):
                continue
            if q[0] == "f" and len(q) > 2 and q[2] == "tuple":
                sel.append(str(q[1]))
            elif q[0] == "f" and len(q) > 2 and str(q[2]) in _WRAPPERS:
                continue
            elif q[0] == "f":
                sel.append("#" + str(q[1]))
            else:
                sel.append("?")
        return pl["l"], tuple(sel) + tuple(pend)
    st = []
    pl0 = mir.op_place(op) if "l" not in op else op
    if pl0 is None:
        return fields
    st.append(split(pl0, ()))
    n = 0
    while st and n < max_nodes:
        n += 1
        nd = st.pop()
        if nd is None:
            continue
        local, pend = nd
        if (local, pend) in seen:
            continue
        seen.add((local, pend))
        if local == self_local:
            nm = next((x[1:] for x in pend if x.startswith("#")), None)
            fields.add(nm if nm is not None else "<self>")
            continue
        for d in du.defs.get(local, []) + du.partial.get(local, []):
            partial = d in du.partial.get(local, [])
            keep = () if partial else pend
            if d[0] == "call":
                t = d[3]
                if (t.get("callee") or "") == "std::ops::FromResidual::from_residual":
                    continue    # the early return of `?`: an error value
                through = (t.get("callee") or "") in _THROUGH and len(t["args"]) == 1
                for a in t["args"]:
                    apl = mir.op_place(a)
                    if apl is not None:
                        st.append(split(apl, keep if through else ()))
                continue
            rv = d[3]["rv"]
            k = rv["k"]
            if k in ("use", "cast", "repeat"):
                apl = mir.op_place(rv["op"])
                if apl is not None:
                    st.append(split(apl, keep))
            elif k in ("ref", "rawptr", "discr"):
                st.append(split(rv["pl"], keep))
            elif k == "agg":
                ops = rv["ops"]
                if "tuple" in rv and keep and keep[0].isdigit() and int(keep[0]) < len(ops):
                    ops, keep2 = [ops[int(keep[0])]], keep[1:]
                elif (rv.get("adt") or "") in _WRAPPERS and len(ops) == 1:
                    keep2 = keep
                else:
                    keep2 = ()
                for o in ops:
                    apl = mir.op_place(o)
                    if apl is not None:
                        st.append(split(apl, keep2))
            elif k == "binop":
                for o in (rv["a"], rv["b"]):
                    apl = mir.op_place(o)
                    if apl is not None:
                        st.append(split(apl, ()))
            elif k == "unop":
                apl = mir.op_place(rv["a"])
                if apl is not None:
                    st.append(split(apl, ()))
    return fields


def closure_captures(F, fn, du, closure_path):
    """operands captured by a closure aggregate in fn"""
    for bi, si, s in mir.stmts(fn):
        rv = s["rv"]
        if rv["k"] == "agg" and rv.get("closure") == closure_path:
            return rv["ops"]
    return []


def slice_adt_fields(F, fn, op, adt_suffix, depth=0, _seen=None, max_nodes=600, calls_out=None):
    """Fields of an ADT (matched by path suffix) that are read anywhere in the interprocedural backward slice of `op`:
    through assignments, aggregates, arithmetic and *all* arguments of calls; into the return value of workspace callees;
    and, when the slice reaches a parameter, into the corresponding argument at every call site (both two levels deep)."""
    _seen = _seen if _seen is not None else set()
    out = set()
    du = mir.DefUse(fn)
    pl = mir.op_place(op) if "l" not in op else op
    if pl is None:
        return out
    st = [(pl["l"], tuple(map(tuple, [[str(x) for x in q] for q in pl["p"]])))]
    for q in pl["p"]:
        if q[0] == "f" and len(q) > 2 and str(q[2]).endswith(adt_suffix):
            out.add(q[1])
    seen = set()
    n = 0
    argc = fn.get("argc", 0)
    while st and n < max_nodes:
        n += 1
        local, _ = st.pop()
        if local in seen:
            continue
        seen.add(local)
        if 1 <= local <= argc and not fn.get("owner") and depth < 2:
            # parameter: continue in the callers
            for g in F.fns.values():
                for bi, t in mir.calls(g):
                    if (t.get("resolved") or t.get("callee")) == fn["path"] and len(t["args"]) >= local:
                        k = (g["path"], bi, local)
                        if k in _seen:
                            continue
                        _seen.add(k)
                        out |= slice_adt_fields(F, g, t["args"][local - 1], adt_suffix, depth + 1, _seen, calls_out=calls_out)
        if local == 1 and fn.get("owner") and fn.get("def_kind") == "Closure" and depth < 4:
            # the environment of a closure: continue with what the enclosing body (the owner function or a closure of it, for a
            # closure nested in a closure) captured into it; a hop through an environment is not a call level
            k = (fn["path"], "env")
            if k not in _seen:
                _seen.add(k)
                top = F.fns.get(fn["owner"])
                hosts = [top] if top is not None else []
                hosts += [c for c in F.fns.values() if c.get("owner") == fn["owner"] and c["path"] != fn["path"]]
                for own in hosts:
                    for bi, si, s in mir.stmts(own):
                        if s["rv"]["k"] == "agg" and s["rv"].get("closure") == fn["path"]:
                            for o in s["rv"]["ops"]:
                                out |= slice_adt_fields(F, own, o, adt_suffix, depth, _seen, calls_out=calls_out)
        for d in du.defs.get(local, []) + du.partial.get(local, []):
            if d[0] == "call":
                t = d[3]
                if calls_out is not None:
                    calls_out.add((t.get("callee") or "").split("::")[-1])
                for a in t["args"]:
                    apl = mir.op_place(a)
                    if apl is not None:
                        for q in apl["p"]:
                            if q[0] == "f" and len(q) > 2 and str(q[2]).endswith(adt_suffix):
                                out.add(q[1])
                        st.append((apl["l"], ()))
                r = t.get("resolved") or t.get("callee") or ""
                h = F.fns.get(r)
                if h is not None and h["crate"].startswith("tx3") and depth < 3 and (r, "ret") not in _seen:
                    _seen.add((r, "ret"))
                    # everything the callee's return value is computed from - including what a function it merely hands on
                    # (`pub fn mint_redeemer_index(..) { redeemer_rank::mint_policy_rank(..) }`) returns
                    out |= slice_adt_fields(F, h, {"l": 0, "p": []}, adt_suffix, depth + 1, _seen, calls_out=calls_out)
            else:
                rv = d[3]["rv"]
                pls = []
                if rv["k"] in ("ref", "rawptr", "discr"):
                    pls.append(rv["pl"])
                for o in mir.all_operands_of_rv(rv):
                    apl = mir.op_place(o)
                    if apl is not None:
                        pls.append(apl)
                for apl in pls:
                    for q in apl["p"]:
                        if q[0] == "f" and len(q) > 2 and str(q[2]).endswith(adt_suffix):
                            out.add(q[1])
                    st.append((apl["l"], ()))
    return out
