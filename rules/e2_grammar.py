"""E2 -- GRAMMAR: tx3.pest <-> AstNode::parse conformance by abstract interpretation.

From the grammar (gramfacts / pest_meta) the *child language* of every rule is built: the regular language, over
token-producing rule names, of the immediate children a `Pair` of that rule can have (silent rules inlined, atomic
rules have no children, predicates and literals produce nothing, EOI is a token).  It over-approximates the PEG
(ordered choice is treated as union), which is the sound direction for both questions asked below.

The parse functions are then interpreted abstractly over MIR (forward dataflow, interprocedural on `Pair` arguments):
    Pair        -> set of rules it can be
    Pairs       -> set of NFA states of the remaining child language
    Option<Pair>-> (set of rules, may be None)
    Rule (from as_rule) -> set of rules + the pair it describes (switch arms narrow the pair)
Results: which blocks are reachable (an `unreachable!`/`todo!` arm is dead iff the flow never reaches it), whether each
`next().unwrap()` can see `None`, whether the pair sequence given to the Pratt parser has the shape it requires.
"""
import re

from . import mir
from .facts import BrokenCheck

BUILTIN_NO_TOKEN = {"ANY", "SOI", "PEEK", "PEEK_ALL", "POP", "POP_ALL", "DROP", "ASCII_DIGIT", "ASCII_NONZERO_DIGIT",
                    "ASCII_BIN_DIGIT", "ASCII_OCT_DIGIT", "ASCII_HEX_DIGIT", "ASCII_ALPHA_LOWER", "ASCII_ALPHA_UPPER",
                    "ASCII_ALPHA", "ASCII_ALPHANUMERIC", "ASCII", "NEWLINE"}


class Grammar:
    def __init__(self, rules_json):
        self.rules = {r["name"]: r for r in rules_json}
        if "program" not in self.rules:
            raise BrokenCheck("grammar has no `program` rule")
        # Thompson NFA, global state numbering
        self.trans = []   # state -> list of (symbol or None for eps, target)
        self.start = {}   # rule -> start state
        self.accept = set()
        self.state_rule = {}
        self._inlining = []
        for name, r in self.rules.items():
            if r["ty"] == "silent":
                continue
            s, a = self._new(), self._new()
            self.start[name] = s
            self.accept.add(a)
            if r["ty"] in ("atomic",):
                self._eps(s, a)   # atomic: no inner tokens
            else:
                self._build(r["expr"], s, a, r["ty"])
        self._closure_cache = {}

    def _new(self):
        self.trans.append([])
        return len(self.trans) - 1

    def _eps(self, a, b):
        self.trans[a].append((None, b))

    def _sym(self, a, sym, b):
        self.trans[a].append((sym, b))

    def _build(self, e, s, a, ty):
        k = e["k"]
        if k in ("str", "insens", "range", "pospred", "negpred", "peekslice", "skip"):
            self._eps(s, a)
        elif k == "ident":
            n = e["v"]
            if n == "EOI":
                self._sym(s, "EOI", a)
            elif n in BUILTIN_NO_TOKEN or n.isupper() and n not in self.rules:
                self._eps(s, a)
            elif n not in self.rules:
                raise BrokenCheck("grammar references unknown rule " + n)
            else:
                r = self.rules[n]
                if r["ty"] == "silent":
                    if n in self._inlining:
                        raise BrokenCheck("recursive silent rule " + n)
                    self._inlining.append(n)
                    self._build(r["expr"], s, a, ty)
                    self._inlining.pop()
                else:
                    self._sym(s, n, a)
        elif k == "seq":
            m = self._new()
            self._build(e["a"], s, m, ty)
            self._build(e["b"], m, a, ty)
        elif k == "choice":
            self._build(e["a"], s, a, ty)
            self._build(e["b"], s, a, ty)
        elif k == "opt":
            self._eps(s, a)
            self._build(e["x"], s, a, ty)
        elif k in ("rep", "repmax", "repminmax"):
            m = self._new()
            self._eps(s, m)
            self._eps(m, a)
            self._build(e["x"], m, m, ty)
        elif k in ("reponce", "repmin"):
            m = self._new()
            self._build(e["x"], s, m, ty)
            self._eps(m, a)
            self._build(e["x"], m, m, ty)
        elif k == "repexact":
            cur = s
            for i in range(e["n"]):
                nxt = self._new() if i < e["n"] - 1 else a
                self._build(e["x"], cur, nxt, ty)
                cur = nxt
            if e["n"] == 0:
                self._eps(s, a)
        elif k == "push":
            self._build(e["x"], s, a, ty)
        else:
            raise BrokenCheck("unsupported grammar expression kind " + k)

    def closure(self, states):
        key = frozenset(states)
        r = self._closure_cache.get(key)
        if r is not None:
            return r
        seen = set(key)
        st = list(key)
        while st:
            x = st.pop()
            for sym, t in self.trans[x]:
                if sym is None and t not in seen:
                    seen.add(t)
                    st.append(t)
        r = frozenset(seen)
        self._closure_cache[key] = r
        return r

    def start_of(self, rules):
        return self.closure([self.start[r] for r in rules if r in self.start])

    def nullable(self, L):
        return any(s in self.accept for s in L)

    def first(self, L):
        return frozenset(sym for s in L for sym, t in self.trans[s] if sym is not None)

    def step_any(self, L):
        nxt = [t for s in L for sym, t in self.trans[s] if sym is not None]
        keep = [s for s in L if s in self.accept]
        return self.closure(nxt + keep)

    def step_sym(self, L, sym):
        nxt = [t for s in L for y, t in self.trans[s] if y == sym]
        return self.closure(nxt)

    def restrict_first(self, L, sym, positive):
        """language { w in L : first(w) == sym } (positive) or { w in L : w empty or first(w) != sym }"""
        key = ("rf", L, sym, positive)
        r = self._closure_cache.get(key)
        if r is not None:
            return r
        s0 = self._new()
        for s in L:
            for y, t in self.trans[s]:
                if y is not None and ((y == sym) == positive):
                    self.trans[s0].append((y, t))
        if not positive and self.nullable(L):
            self.accept.add(s0)
        r = self.closure([s0])
        self._closure_cache[key] = r
        return r

    def empty_language(self):
        """the language containing only the empty sequence (an accepting state without transitions)"""
        if getattr(self, "_eps_state", None) is None:
            self._eps_state = self._new()
            self.accept.add(self._eps_state)
        return frozenset([self._eps_state])

    def alphabet(self, L):
        seen = set(L)
        st = list(L)
        out = set()
        while st:
            x = st.pop()
            for sym, t in self.trans[x]:
                if sym is not None:
                    out.add(sym)
                if t not in seen:
                    seen.add(t)
                    st.append(t)
        return frozenset(out)

    def alts(self, rule):
        """token-producing alternatives a pair handed over under the name of a (possibly silent) rule can be"""
        r = self.rules[rule]
        if r["ty"] != "silent":
            return frozenset([rule])
        s, a = self._new(), self._new()
        self._inlining.append(rule)
        self._build(r["expr"], s, a, "silent")
        self._inlining.pop()
        return self.alphabet(self.closure([s]))

    def pratt_shape(self, L, prefix, postfix, infix):
        """is every word of L of the form  prefix* primary postfix* (infix prefix* primary postfix*)* ?
        returns (ok, reason, primaries)"""
        ops = prefix | postfix | infix
        seen = set()
        st = [(s, "E") for s in L]
        primaries = set()
        problems = []
        while st:
            s, q = st.pop()
            if (s, q) in seen:
                continue
            seen.add((s, q))
            if s in self.accept and q == "E":
                problems.append("the sequence can end where an operand is expected (or be empty)")
            for sym, t in self.trans[s]:
                if sym is None:
                    st.append((t, q))
                    continue
                if q == "E":
                    if sym in prefix:
                        st.append((t, "E"))
                    elif sym in ops:
                        problems.append("operator `%s` where an operand is expected" % sym)
                    else:
                        primaries.add(sym)
                        st.append((t, "A"))
                else:
                    if sym in postfix:
                        st.append((t, "A"))
                    elif sym in infix:
                        st.append((t, "E"))
                    else:
                        problems.append("`%s` directly after an operand (no infix operator between)" % sym)
        return (not problems), "; ".join(sorted(set(problems))), frozenset(primaries)


# ------------------------------------------------------------------------------------------------
# abstract interpreter

PAIR = "pair"
PAIRS = "pairs"
OPT = "opt"
RULE = "rule"
REF = "ref"

RULE_ADT = "tx3_lang::parsing::Rule"
NEXT_NAMES = ("<pest::iterators::Pairs<'i, R> as std::iter::Iterator>::next",)


def vjoin(a, b):
    if a is None:
        return b
    if b is None:
        return a
    if a[0] != b[0]:
        return a  # incompatible kinds: keep the first (does not happen for well-typed moves)
    k = a[0]
    if k == PAIR:
        oa = a[2] if len(a) > 2 else None
        ob = b[2] if len(b) > 2 else None
        return (PAIR, a[1] | b[1], oa if oa == ob else None)
    if k == PAIRS:
        return (PAIRS, a[1] | b[1])
    if k == OPT:
        oa = a[3] if len(a) > 3 else None
        ob = b[3] if len(b) > 3 else None
        return (OPT, a[1] | b[1], a[2] or b[2], oa if oa == ob else None)
    if k == RULE:
        return (RULE, a[1] | b[1], a[2] if a[2] == b[2] else None)
    if k == REF:
        return a
    if k == "bool":
        return a if a == b else None
    if k == "ver":
        return a if a == b else ("ver", -1)
    return a


def sjoin(a, b):
    """join of two states (dict local -> value); returns (joined, changed_relative_to_a)"""
    if a is None:
        return dict(b), True
    changed = False
    out = dict(a)
    for l, v in b.items():
        old = out.get(l)
        new = vjoin(old, v)
        if new != old:
            if new is None:
                out.pop(l, None)
            else:
                out[l] = new
            changed = True
    for l in list(out):
        if out[l][0] == "bool" and l not in b:
            # a flag known on one path only is unknown after the join
            del out[l]
            changed = True
    return out, changed


def _partition_key(st):
    """states that disagree on a known boolean flag are kept apart (trace partitioning): `let is_x = match pair.as_rule()
    {..}` followed by `if is_x { .. }` stays correlated with the rule the pair was narrowed to"""
    return frozenset((l, v[1]) for l, v in st.items() if v[0] in ("bool", "ver"))


class Interp:
    def __init__(self, F, G):
        self.F = F
        self.G = G
        adt = F.adt(RULE_ADT)
        self.rule_by_discr = {v["discr"]: v["name"] for v in adt["variants"]}
        self.params = {}      # fn path -> {arg local: value}
        self.reached = {}     # fn path -> set of blocks
        self.unwrap = {}      # (fn path, bb) -> {"maybe_none": bool, "rules": set}
        self.pratt = {}       # (fn path, bb) -> (ok, reason)
        self.switches = {}    # (fn path, bb) -> {"handled": set, "incoming": set, "otherwise_live": bool}
        self.work = []
        self.feeders = {}
        self.site_L = {}      # (fn path, bb) of a next()/peek() call -> language before the call (latest iteration)
        self.text_sites = {}  # (fn path, bb) -> rules of the pair whose text (as_str / as_span) is read there
        self.pratt_ops = self._pratt_ops()
        self.analysed_fns = set()
        self._bodies = {}

    # --- bodies: helper functions of the parser are inlined (context-sensitive, generic helpers instantiated) ----
    @staticmethod
    def _inline_policy(t, callee):
        if callee["crate"] != "tx3_lang" or callee.get("impl_trait") or callee.get("trait_default"):
            return False
        if not (callee["file"].endswith("parsing.rs") or "/parsing/" in callee["file"]):
            # parse helpers of other modules of the crate (`cardano/support.rs`): recognised by taking pairs
            if not any("pest::iterators::Pair" in ty for ty in callee["locals"][1:1 + callee.get("argc", 0)]):
                return False
        return len(callee["blocks"]) <= 150

    def _body(self, p):
        if p not in self._bodies:
            f = self.F.fns.get(p)
            self._bodies[p] = mir.inline_calls(self.F, f, want=Interp._inline_policy, depth=3) if f is not None else None
        return self._bodies[p]

    def _k(self, f, bi):
        """key of a block for the recorded facts: blocks of an inlined helper are recorded under the helper's own path and
        block number (facts from all contexts are joined there)"""
        b = f["blocks"][bi]
        if b.get("inl") and "inl_bb" in b:
            return (b["inl"], b["inl_bb"])
        return (f["path"], bi)

    # --- the operator table registered in DATA_EXPR_PRATT_PARSER ---------------------------------
    def _pratt_ops(self):
        F = self.F
        # found by role: whatever body of the parser crate registers operators with pest's PrattParser (a lazy static's
        # initialiser closure, a const, a plain function) - not by the name of the static
        bodies = []
        for src in (F.fns, F.ctfe):
            for f in src.values():
                if f["crate"] != "tx3_lang":
                    continue
                if any(re.match(r"pest::pratt_parser::Op::<R>::(infix|prefix|postfix)$", t.get("callee") or "") for _, t in mir.calls(f)):
                    bodies.append(f)
        self.pratt_bodies = bodies
        prefix, postfix, infix = set(), set(), set()
        assoc = {}
        found = False
        for f in bodies:
            for bi, t in mir.calls(f):
                c = t.get("callee") or ""
                m = re.match(r"pest::pratt_parser::Op::<R>::(infix|prefix|postfix)$", c)
                if not m:
                    continue
                found = True
                rule = None
                du = mir.DefUse(f)
                for a in t["args"]:
                    for o in mir.provenance(f, du, a):
                        if o.kind == "agg" and o.rv.get("adt") == RULE_ADT:
                            rule = o.rv["variant"]
                        elif o.kind == "agg" and (o.rv.get("adt") or "").endswith("pratt_parser::Assoc"):
                            assoc[rule] = o.rv["variant"]
                        elif o.kind == "const" and o.const.get("ty") == RULE_ADT:
                            rule = self._rule_of_const(o.const)
                if rule is None:
                    raise BrokenCheck("cannot read the rule of a Pratt operator registration")
                {"infix": infix, "prefix": prefix, "postfix": postfix}[m.group(1)].add(rule)
        if not found:
            raise BrokenCheck("no Pratt operator registration (Op::infix/prefix/postfix) found in tx3_lang")
        return {"prefix": frozenset(prefix), "postfix": frozenset(postfix), "infix": frozenset(infix), "assoc": assoc}

    def _rule_of_const(self, c):
        if "int" in c:
            return self.rule_by_discr.get(c["int"])
        if "promoted" in c and "uneval" in c:
            body = self.F.promoted.get((c["uneval"], c["promoted"]))
            if body is not None:
                for bi, si, st in mir.stmts(body):
                    rv = st["rv"]
                    if rv["k"] == "agg" and rv.get("adt") == RULE_ADT:
                        return rv["variant"]
            return None
        txt = c.get("txt", "")
        m = re.search(r"Rule::([A-Za-z_0-9]+)", txt)
        if m:
            return m.group(1)
        return None

    def _rule_test_of_call(self, f, t):
        """if the closure argument of this call is `|p| p.as_rule() == Rule::X`, return X"""
        du = mir.DefUse(f)
        for a in t["args"][1:]:
            for o in mir.provenance(f, du, a):
                path = None
                if o.kind == "agg" and "closure" in o.rv:
                    path = o.rv["closure"]
                elif o.kind == "const" and "fn" in o.const:
                    path = o.const.get("fn_resolved") or o.const["fn"]
                if path is None:
                    continue
                x = self._rule_test(path)
                if x is None and o.kind == "agg" and "closure" in o.rv:
                    # `|head| head.as_rule() == rule` with `rule` captured (a parameter of an inlined helper such as
                    # `next_is(Rule::identifier, &pairs)`): the captured operand is a Rule literal in this body
                    x = self._rule_test_captured(f, du, o.rv)
                if x is not None:
                    return x
        return None

    def _rule_test_captured(self, f, du, clo_rv):
        g = self.F.fns.get(clo_rv["closure"])
        if g is None:
            return None
        callsl = list(mir.calls(g))
        eqs = [(bi, t) for bi, t in callsl if (t.get("callee") == "std::cmp::PartialEq::eq" and "parsing::Rule" in (t.get("resolved") or ""))]
        others = [t for bi, t in callsl if (bi, t) not in eqs and t.get("callee") != "pest::iterators::Pair::<'i, R>::as_rule"]
        if len(eqs) != 1 or others:
            return None
        bi, t = eqs[0]
        dg = mir.DefUse(g)
        ret = mir.provenance(g, dg, {"l": 0, "p": []})
        if not (t["dest"]["l"] == 0 or any(o.kind == "call" and o.bb == bi for o in ret)):
            return None
        for a in t["args"]:
            for o in mir.provenance(g, dg, a):
                if o.kind == "arg" and o.local == 1 and o.proj and o.proj[0][1:].isdigit():
                    idx = int(o.proj[0][1:])
                    if idx < len(clo_rv.get("ops") or []):
                        for o2 in mir.provenance(f, du, clo_rv["ops"][idx]):
                            if o2.kind == "agg" and o2.rv.get("adt") == RULE_ADT:
                                return o2.rv["variant"]
                            if o2.kind == "const":
                                r = self._rule_of_const(o2.const)
                                if r:
                                    return r
        return None

    def _rule_test(self, path):
        g = self.F.fns.get(path)
        if g is None:
            return None
        cached = g.get("_rule_test", 0)
        if cached != 0:
            return cached
        res = None
        callsl = list(mir.calls(g))
        eqs = [(bi, t) for bi, t in callsl if (t.get("callee") == "std::cmp::PartialEq::eq" and "parsing::Rule" in (t.get("resolved") or ""))]
        others = [t for bi, t in callsl if (bi, t) not in eqs and t.get("callee") != "pest::iterators::Pair::<'i, R>::as_rule"]
        if len(eqs) == 1 and not others:
            bi, t = eqs[0]
            du = mir.DefUse(g)
            # returned value is the comparison's result
            ret = mir.provenance(g, du, {"l": 0, "p": []})
            if t["dest"]["l"] == 0 or any(o.kind == "call" and o.bb == bi for o in ret):
                for a in t["args"]:
                    for o in mir.provenance(g, du, a):
                        if o.kind == "agg" and o.rv.get("adt") == RULE_ADT:
                            res = o.rv["variant"]
                        elif o.kind == "const":
                            r = self._rule_of_const(o.const)
                            if r:
                                res = r
        g["_rule_test"] = res
        return res

    # --- driver -------------------------------------------------------------------------------
    def seed(self, fn_path, arg_local, value, caller=None):
        if caller is not None and value[0] == PAIR:
            fd = self.feeders.setdefault((fn_path, arg_local), {})
            for r in value[1]:
                fd.setdefault(r, set()).add(caller)
        if value[0] == PAIR and len(value) > 2:
            value = (PAIR, value[1], None)
        if value[0] == OPT and len(value) > 3:
            value = (OPT, value[1], value[2], None)
        cur = self.params.setdefault(fn_path, {})
        new = vjoin(cur.get(arg_local), value)
        if new != cur.get(arg_local):
            cur[arg_local] = new
            if fn_path not in self.work:
                self.work.append(fn_path)

    def run(self):
        n = 0
        while self.work:
            p = self.work.pop(0)
            n += 1
            if n > 20000:
                raise BrokenCheck("grammar flow did not converge")
            f = self._body(p)
            if f is None:
                continue
            self._analyse(f)

    def _deref(self, st, local):
        v = st.get(local)
        seen = 0
        while v is not None and v[0] == REF and seen < 8:
            local = v[1]
            v = st.get(local)
            seen += 1
        return local, v

    def _place_val(self, st, pl):
        """abstract value read through a place"""
        base, v = self._deref(st, pl["l"])
        if v is None:
            return None
        projs = [p for p in pl["p"] if p[0] != "d"]
        if not projs:
            return v
        if v[0] == OPT:
            # (x as Some).0
            if any(p[0] == "dc" and p[1] == "Some" for p in projs) or any(p[0] == "f" and p[3] == "Some" for p in projs):
                return (PAIR, v[1], v[3] if len(v) > 3 else None)
            return None
        # Result<Pairs,_> / ControlFlow wrappers: transparent
        return v

    def _op_val(self, st, op):
        pl = mir.op_place(op)
        if pl is None:
            return None
        return self._place_val(st, pl)

    def _analyse(self, f):
        F, G = self.F, self.G
        path = f["path"]
        self.analysed_fns.add(path)
        blocks = f["blocks"]
        init = dict(self.params.get(path, {}))
        instate = {0: {_partition_key(init): init}}
        work = [(0, _partition_key(init))]
        reached = self.reached.setdefault(path, set())
        iters = 0
        while work:
            bi, pk = work.pop()
            iters += 1
            if iters > 20000:
                raise BrokenCheck("grammar flow did not converge in " + path)
            kp, kb = self._k(f, bi)
            if kp == path:
                reached.add(bi)
            else:
                self.reached.setdefault(kp, set()).add(kb)
                self.analysed_fns.add(kp)
            st = dict(instate[bi][pk])
            b = blocks[bi]
            for s in b["s"]:
                self._stmt(st, s)
            outs = self._term(f, bi, st, b["t"])
            for tgt, ost in outs:
                if blocks[tgt]["cleanup"]:
                    continue
                parts = instate.setdefault(tgt, {})
                k2 = _partition_key(ost)
                if k2 not in parts and len(parts) >= 12:
                    # too many partitions: fall back to joining into an existing one
                    k2 = next(iter(parts))
                joined, changed = sjoin(parts.get(k2), ost)
                if changed or k2 not in parts:
                    parts[k2] = joined
                    if (tgt, k2) not in work:
                        work.append((tgt, k2))

    def _stmt(self, st, s):
        lhs = s["lhs"]
        rv = s["rv"]
        k = rv["k"]
        val = None
        if k in ("use", "cast"):
            val = self._op_val(st, rv["op"])
            pl0 = mir.op_place(rv["op"])
            if pl0 is not None and not pl0["p"]:
                v0 = st.get(pl0["l"])
                if v0 is not None and v0[0] == REF:
                    # moving / copying a reference (e.g. the `&mut Pairs` handed to an inlined helper) keeps it a reference
                    val = v0
            if val is None and k == "use":
                c = mir.op_const(rv["op"])
                if c is not None and c.get("ty") == "bool" and "int" in c:
                    val = ("bool", bool(c["int"]))
        elif k == "ref":
            pl = rv["pl"]
            base, v = self._deref(st, pl["l"])
            if v is not None and not [p for p in pl["p"] if p[0] != "d"]:
                val = (REF, base)
            elif v is not None and v[0] == PAIRS and all(p[0] == "d" or (p[0] == "f" and len(p) > 2 and self._newtype(p[2])) for p in pl["p"]):
                # `&mut self.0` of a cursor struct that wraps the children (one field): the struct stands for its field
                val = (REF, base)
            elif v is not None:
                pv = self._place_val(st, pl)
                if pv is not None:
                    # reference to a projected value: materialise as a value (read-only use)
                    val = pv
        elif k == "discr":
            pv = self._place_val(st, rv["pl"])
            if pv is not None and pv[0] in (RULE, OPT):
                val = pv if pv[0] == RULE else ("optdiscr", pv, rv["pl"]["l"])
        elif k == "agg" and "tuple" in rv and len(rv["ops"]) == 1:
            val = self._op_val(st, rv["ops"][0])
        elif k == "agg" and len(rv["ops"]) == 1 and self._newtype(rv.get("adt") or ""):
            val = self._op_val(st, rv["ops"][0])
            if val is not None and val[0] != PAIRS:
                val = None
        elif k == "agg" and rv.get("adt", "").endswith("::Option") and rv.get("variant") == "None" and "Pair" in " ".join(str(x) for x in [rv.get("adt_args", "")]):
            val = (OPT, frozenset(), True, None)
        elif k == "agg" and rv.get("adt", "").endswith("::Option") and rv.get("variant") == "Some" and rv["ops"]:
            pv = self._op_val(st, rv["ops"][0])
            if pv is not None and pv[0] == PAIR:
                val = (OPT, pv[1], False, pv[2] if len(pv) > 2 else None)
        if lhs["p"]:
            return
        if val is not None:
            st[lhs["l"]] = val
        else:
            st.pop(lhs["l"], None)

    def _newtype(self, adt):
        """a struct of the parser crate with exactly one field (a cursor / wrapper around the children of a pair)"""
        a = self.F.adts.get(adt) if adt.startswith("tx3_lang::") else None
        return bool(a) and not a.get("is_enum") and len(a["variants"]) == 1 and len(a["variants"][0]["fields"]) == 1

    def _feed(self, callee_path, argvals, caller=None, subst=None):
        f = self.F.fns.get(callee_path)
        if f is None:
            return
        if subst and f["def_kind"] == "Closure" and any(b["t"]["k"] == "call" and b["t"].get("trait") and not b["t"].get("resolved") for b in f["blocks"]):
            # a closure of a generic helper (`|x| T::parse(x)` in `parse_each::<T>`): interpret the instance the (inlined)
            # helper was called with, each instance under its own name
            g = mir.instantiate_body(self.F, f, subst)
            if g["path"] not in self._bodies:
                self._bodies[g["path"]] = g
            callee_path = g["path"]
        off = 2 if f["def_kind"] == "Closure" else 1
        for i, v in enumerate(argvals):
            if v is not None and v[0] in (PAIR, PAIRS, OPT):
                self.seed(callee_path, off + i, v, caller)

    def _term(self, f, bi, st, t):
        G = self.G
        path = f["path"]
        k = t["k"]
        if k == "switch":
            pl = mir.op_place(t["discr"])
            v = st.get(pl["l"]) if pl is not None and not pl["p"] else None
            outs = []
            if v is not None and v[0] == RULE:
                R, src = v[1], v[2]
                handled = set()
                for dv, tb in t["targets"]:
                    name = self.rule_by_discr.get(dv)
                    handled.add(name)
                    if name in R:
                        st2 = dict(st)
                        if src is not None:
                            old = st.get(src)
                            origin = old[2] if (old is not None and old[0] == PAIR and len(old) > 2) else None
                            st2[src] = (PAIR, frozenset([name]), origin)
                            if origin is not None and len(origin) == 2:
                                # the pair came from `next()` on a Pairs that has not been advanced since: knowing
                                # which symbol was consumed sharpens what can follow
                                pl_local, site = origin
                                before = self.site_L[site]
                                cur = st.get(pl_local)
                                if cur is not None and cur[0] == PAIRS and cur[1] == G.step_any(before):
                                    st2[pl_local] = (PAIRS, G.step_sym(before, name))
                        outs.append((tb, st2))
                rest = R - handled
                info = self.switches.setdefault(self._k(f, bi), {"handled": set(), "incoming": set(), "otherwise_live": False})
                info["handled"] |= handled
                info["incoming"] |= R
                if rest:
                    info["otherwise_live"] = True
                    st2 = dict(st)
                    if src is not None:
                        st2[src] = (PAIR, frozenset(rest))
                    outs.append((t["otherwise"], st2))
                return outs
            if v is not None and v[0] == "bool":
                tm = dict((dv, tb) for dv, tb in t["targets"])
                return [(tm.get(1 if v[1] else 0, t["otherwise"]), st)]
            if v is not None and v[0] == "rulecmp":
                _, R, x, is_eq, src = v
                false_t = [tb for dv, tb in t["targets"] if dv == 0]
                true_t = t["otherwise"]
                outs = []
                old = st.get(src) if src is not None else None
                origin = old[2] if (old is not None and old[0] == PAIR and len(old) > 2) else None
                for edge_is_x, tgts in ((is_eq, [true_t]), (not is_eq, false_t)):
                    keep = (R & {x}) if edge_is_x else (R - {x})
                    if not keep:
                        continue
                    st2 = dict(st)
                    if src is not None:
                        st2[src] = (PAIR, frozenset(keep), origin)
                    if origin is not None and origin[0] == "peek":
                        pl_local, pver = origin[1], (origin[3] if len(origin) > 3 else -1)
                        cur = st.get(pl_local)
                        # the pairs have not been advanced since the peek (same version): what was peeked is still next
                        if cur is not None and cur[0] == PAIRS and pver >= 0 and st.get(("v", pl_local), ("ver", 0))[1] == pver:
                            st2[pl_local] = (PAIRS, G.restrict_first(cur[1], x, edge_is_x))
                    for tb in tgts:
                        outs.append((tb, st2))
                return outs
            if v is not None and v[0] == "peekis":
                _, pl_local, site, x = v
                Lp = self.site_L[site]
                cur = st.get(pl_local)
                outs = []
                same = cur is not None and cur[0] == PAIRS and cur[1] == Lp
                false_t = [tb for dv, tb in t["targets"] if dv == 0]
                true_t = t["otherwise"]
                st_t, st_f = dict(st), dict(st)
                if same:
                    st_t[pl_local] = (PAIRS, G.restrict_first(Lp, x, True))
                    st_f[pl_local] = (PAIRS, G.restrict_first(Lp, x, False))
                if not same or x in G.first(Lp):
                    outs.append((true_t, st_t))
                for tb in false_t:
                    outs.append((tb, st_f))
                return outs
            if v is not None and v[0] == "optdiscr":
                opt = v[1]
                # `peek()` returned None: nothing follows - the pairs are exhausted on that edge
                st_none = st
                org = opt[3] if len(opt) > 3 else None
                if org is not None and org[0] == "peek":
                    pl_local, pver = org[1], (org[3] if len(org) > 3 else -1)
                    cur = st.get(pl_local)
                    if cur is not None and cur[0] == PAIRS and pver >= 0 and st.get(("v", pl_local), ("ver", 0))[1] == pver:
                        st_none = dict(st)
                        st_none[pl_local] = (PAIRS, G.empty_language() if G.nullable(cur[1]) else frozenset())
                for dv, tb in t["targets"]:
                    if dv == 0 and not opt[2]:
                        continue   # None edge infeasible
                    if dv == 1 and not opt[1]:
                        continue   # Some edge infeasible (no symbol can follow)
                    outs.append((tb, st_none if dv == 0 else st))
                # otherwise edge of an Option match is `unreachable`
                if len(t["targets"]) < 2:
                    # `if let Some(..)` style: [[1, some]] otherwise none  /  [[0, none]] otherwise some
                    dvs = [dv for dv, _ in t["targets"]]
                    if dvs == [1]:
                        if opt[2]:
                            outs.append((t["otherwise"], st_none))
                    elif dvs == [0]:
                        if opt[1]:
                            outs.append((t["otherwise"], st))
                    else:
                        outs.append((t["otherwise"], st))
                return outs
            return [(x, st) for x in mir.block_succs(f["blocks"][bi])]
        if k != "call":
            return [(x, st) for x in mir.succs_of(t)]
        callee = t.get("callee") or ""
        resolved = t.get("resolved") or ""
        args = t["args"]
        dest = t["dest"]
        res = None
        a0 = self._op_val(st, args[0]) if args else None
        if callee == "pest::iterators::Pair::<'i, R>::into_inner":
            if a0 is not None and a0[0] == PAIR:
                res = (PAIRS, G.start_of(a0[1]))
        elif callee in ("pest::iterators::Pair::<'i, R>::as_str", "pest::iterators::Pair::<'i, R>::as_span"):
            if a0 is not None and a0[0] == PAIR:
                self.text_sites.setdefault(self._k(f, bi), set()).update(a0[1])
        elif callee == "pest::iterators::Pair::<'i, R>::as_rule":
            if a0 is not None and a0[0] == PAIR:
                pl = mir.op_place(args[0])
                src, _ = self._deref(st, pl["l"])
                res = (RULE, a0[1], src if not [p for p in pl["p"] if p[0] != "d"] else None)
        elif resolved in NEXT_NAMES or (callee == "std::iter::Iterator::next" and a0 is not None and a0[0] == PAIRS):
            if a0 is not None and a0[0] == PAIRS:
                L = a0[1]
                pl = mir.op_place(args[0])
                base, _ = self._deref(st, pl["l"])
                self.site_L[(path, bi)] = L
                res = (OPT, G.first(L), G.nullable(L), (base, (path, bi)))
                st = dict(st)
                st[base] = (PAIRS, G.step_any(L))
                ver = st.get(("v", base), ("ver", 0))
                st[("v", base)] = ("ver", ver[1] + 1 if 0 <= ver[1] < 3 else -1)
        elif callee == "pest::iterators::Pairs::<'i, R>::peek":
            if a0 is not None and a0[0] == PAIRS:
                pl = mir.op_place(args[0])
                base, _ = self._deref(st, pl["l"])
                self.site_L[(path, bi)] = a0[1]
                res = (OPT, G.first(a0[1]), G.nullable(a0[1]), ("peek", base, (path, bi), st.get(("v", base), ("ver", 0))[1]))
        elif callee in ("std::option::Option::<T>::unwrap", "std::option::Option::<T>::expect"):
            if a0 is not None and a0[0] == OPT:
                rec = self.unwrap.setdefault(self._k(f, bi), {"maybe_none": False, "rules": set()})
                rec["maybe_none"] = rec["maybe_none"] or a0[2]
                rec["rules"] |= set(a0[1])
                res = (PAIR, a0[1], a0[3] if len(a0) > 3 else None)
        elif callee in ("std::option::Option::<T>::map_or", "std::option::Option::<T>::map", "std::option::Option::<T>::is_some_and") \
                and a0 is not None and a0[0] == OPT and len(a0) > 3 and a0[3] is not None and a0[3][0] == "peek" \
                and self._rule_test_of_call(f, t) is not None:
            x = self._rule_test_of_call(f, t)
            kind = "optpeekis" if callee.endswith("::map") else "peekis"
            res = (kind, a0[3][1], a0[3][2], x)
        elif callee in ("std::option::Option::<T>::unwrap_or_default", "std::option::Option::<T>::unwrap_or") and a0 is not None and a0[0] == "optpeekis":
            dflt_false = True
            if callee.endswith("unwrap_or") and len(args) > 1:
                c = mir.op_const(args[1])
                dflt_false = c is not None and c.get("int") == 0
            if dflt_false:
                res = ("peekis", a0[1], a0[2], a0[3])
        elif callee in ("std::cmp::PartialEq::eq", "std::cmp::PartialEq::ne") and len(args) == 2 and \
                (RULE_ADT in (resolved + " ".join(t.get("gargs") or []))):
            va, vb = self._op_val(st, args[0]), self._op_val(st, args[1])
            rv_, other = (va, args[1]) if (va is not None and va[0] == RULE) else ((vb, args[0]) if (vb is not None and vb[0] == RULE) else (None, None))
            if rv_ is not None:
                x = None
                for o in mir.provenance(f, mir.DefUse(f), other):
                    if o.kind == "agg" and o.rv.get("adt") == RULE_ADT:
                        x = o.rv["variant"]
                    elif o.kind == "const":
                        x = self._rule_of_const(o.const) or x
                if x is not None:
                    res = ("rulecmp", rv_[1], x, callee.endswith("::eq"), rv_[2])
        elif callee in ("std::ops::FnOnce::call_once", "std::ops::FnMut::call_mut", "std::ops::Fn::call") and len(args) == 2:
            # a closure / fn item handed to an (inlined) helper and called there with a pair
            av = self._op_val(st, args[1])
            if av is not None and av[0] in (PAIR, PAIRS, OPT):
                for o in mir.provenance(f, mir.DefUse(f), args[0]):
                    tgt = None
                    if o.kind == "agg" and "closure" in o.rv:
                        tgt = o.rv["closure"]
                    elif o.kind == "const" and "fn" in o.const:
                        tgt = o.const.get("fn_resolved") or o.const["fn"]
                    if tgt in self.F.fns:
                        self._feed(tgt, [av], path, subst=t.get("subst"))
        elif callee in ("std::iter::IntoIterator::into_iter", "std::ops::Try::branch", "std::clone::Clone::clone",
                        "std::result::Result::<T, E>::map_err", "std::result::Result::<T, E>::unwrap", "std::result::Result::<T, E>::expect"):
            res = a0 if a0 is not None and a0[0] != REF else (self._deref(st, a0[1])[1] if a0 is not None else None)
        elif callee.endswith("as pest::Parser<tx3_lang::parsing::Rule>>::parse") or resolved.endswith("as pest::Parser<tx3_lang::parsing::Rule>>::parse") or callee == "pest::Parser::parse":
            r = None
            if args:
                for o in mir.provenance(f, mir.DefUse(f), args[0]):
                    if o.kind == "agg" and o.rv.get("adt") == RULE_ADT:
                        r = o.rv["variant"]
                    elif o.kind == "const":
                        r = self._rule_of_const(o.const)
            if r is None:
                raise BrokenCheck("cannot read the start rule passed to Tx3Grammar::parse in " + path)
            # synthetic language: exactly one pair of the start rule
            s, a = G._new(), G._new()
            G._sym(s, r, a)
            G.accept.add(a)
            res = (PAIRS, G.closure([s]))
        elif "pest::pratt_parser::PrattParserMap" in callee and callee.endswith("::parse"):
            a1 = self._op_val(st, args[1]) if len(args) > 1 else None
            if a1 is not None and a1[0] == PAIRS:
                ops = self.pratt_ops
                # judge each rule whose children can arrive here separately, so the report names the rule
                incoming = set()
                for v in self.params.get(path, {}).values():
                    if v[0] == PAIR:
                        incoming |= set(v[1])
                good_states = set()
                per_rule = {}
                for r in sorted(incoming):
                    Lr = G.start_of([r])
                    okr, reason_r, _ = G.pratt_shape(Lr, ops["prefix"], ops["postfix"], ops["infix"])
                    per_rule[r] = (okr, reason_r)
                    if okr:
                        good_states |= set(Lr)
                self.pratt[self._k(f, bi)] = per_rule
                Lgood = frozenset(good_states) & a1[1] if good_states else frozenset()
                _, _, prim = G.pratt_shape(Lgood, ops["prefix"], ops["postfix"], ops["infix"])
                alpha = G.alphabet(Lgood)
                # feed the four mapper closures registered earlier in this function
                for bj, t2 in mir.calls(f):
                    c2 = t2.get("callee") or ""
                    m = re.search(r"::(map_primary|map_prefix|map_postfix|map_infix)$", c2)
                    if not m:
                        continue
                    which = m.group(1)
                    # the mapper is the call's own closure argument (the receiver's type mentions the earlier ones)
                    du2 = mir.DefUse(f)
                    mappers = []
                    for a in t2["args"][1:]:
                        for o in mir.provenance(f, du2, a):
                            if o.kind == "agg" and "closure" in o.rv:
                                mappers.append(o.rv["closure"])
                            elif o.kind == "const" and "fn" in o.const:
                                mappers.append(o.const["fn"])
                    for fr in mappers:
                        g = self.F.fns.get(fr)
                        if g is None:
                            continue
                        off = 2 if g["def_kind"] == "Closure" else 1
                        if which == "map_primary":
                            self.seed(fr, off, (PAIR, prim))
                        elif which == "map_prefix":
                            self.seed(fr, off, (PAIR, ops["prefix"] & alpha))
                        elif which == "map_postfix":
                            self.seed(fr, off + 1, (PAIR, ops["postfix"] & alpha))
                        elif which == "map_infix":
                            self.seed(fr, off + 1, (PAIR, ops["infix"] & alpha))
        else:
            # higher-order: an Option<Pair>/Pairs receiver and a closure / fn item argument
            if a0 is not None and a0[0] in (PAIRS, OPT) and t.get("fnrefs"):
                elem = (PAIR, self.G.alphabet(a0[1])) if a0[0] == PAIRS else (PAIR, a0[1])
                for fr in t["fnrefs"]:
                    if fr in self.F.fns and elem[1]:
                        self._feed(fr, [elem], path, subst=t.get("subst"))
                if a0[0] == PAIRS and callee.startswith("std::iter::Iterator::"):
                    # adaptor keeps iterating the same pairs lazily; nothing more to track
                    pass
            # direct call of a workspace function with pair-like arguments
            target = resolved if resolved in self.F.fns else (callee if callee in self.F.fns else None)
            if target is not None:
                vals = [self._op_val(st, a) for a in args]
                vals = [(self._deref(st, v[1])[1] if v is not None and v[0] == REF else v) for v in vals]
                for i, v in enumerate(vals):
                    if v is not None and v[0] in (PAIR, PAIRS, OPT):
                        self.seed(target, 1 + i, v, path)
            elif callee == "std::ops::Fn::call" or callee == "std::ops::FnMut::call_mut" or callee == "std::ops::FnOnce::call_once":
                pass
            # a `&mut Pairs` handed to an unknown function: forget what we know (all remaining states possible)
            for a in args:
                pl = mir.op_place(a)
                if pl is None:
                    continue
                v = st.get(pl["l"])
                if v is not None and v[0] == REF:
                    base, bv = self._deref(st, pl["l"])
                    if bv is not None and bv[0] == PAIRS and target is None and not callee.startswith(("pest::iterators::Pairs", "std::iter::Iterator::size_hint")):
                        st = dict(st)
                        seen = set(bv[1])
                        stack = list(bv[1])
                        while stack:
                            x = stack.pop()
                            for sym, tt in self.G.trans[x]:
                                if tt not in seen:
                                    seen.add(tt)
                                    stack.append(tt)
                        st[base] = (PAIRS, frozenset(seen))
        st = dict(st)
        if not dest["p"]:
            if res is not None:
                st[dest["l"]] = res
            else:
                st.pop(dest["l"], None)
        if t["t"] is None:
            return []
        return [(t["t"], st)]


def analyse(F):
    G = Grammar(F.grammar)
    it = Interp(F, G)
    # entry: parse_string (Tx3Grammar::parse(Rule::program, input))
    it.work.append("tx3_lang::parsing::parse_string")
    it.run()
    return G, it


# ------------------------------------------------------------------------------------------------
# G4: facts about the *text* a rule matches (for literal conversions: str::parse, slicing, split_once)

SINGLE_CHAR_BUILTINS = {"ANY", "ASCII_DIGIT", "ASCII_NONZERO_DIGIT", "ASCII_BIN_DIGIT", "ASCII_OCT_DIGIT", "ASCII_HEX_DIGIT",
                        "ASCII_ALPHA_LOWER", "ASCII_ALPHA_UPPER", "ASCII_ALPHA", "ASCII_ALPHANUMERIC", "ASCII", "NEWLINE"}


class TextFacts:
    def __init__(self, G):
        self.G = G

    def _expr(self, name):
        return self.G.rules[name]["expr"]

    def min_len(self, e, depth=0):
        if depth > 30:
            return 0
        k = e["k"]
        if k in ("str", "insens"):
            return len(e["v"].encode())
        if k == "range":
            return 1
        if k == "ident":
            n = e["v"]
            if n in SINGLE_CHAR_BUILTINS:
                return 1
            if n in ("SOI", "EOI") or n not in self.G.rules:
                return 0
            return self.min_len(self._expr(n), depth + 1)
        if k == "seq":
            return self.min_len(e["a"], depth + 1) + self.min_len(e["b"], depth + 1)
        if k == "choice":
            return min(self.min_len(e["a"], depth + 1), self.min_len(e["b"], depth + 1))
        if k in ("reponce",):
            return self.min_len(e["x"], depth + 1)
        if k == "repexact":
            return e["n"] * self.min_len(e["x"], depth + 1)
        if k in ("repmin",):
            return e["n"] * self.min_len(e["x"], depth + 1)
        if k == "repminmax":
            return e["a"] * self.min_len(e["x"], depth + 1)
        if k == "push":
            return self.min_len(e["x"], depth + 1)
        return 0

    def lit_prefix(self, e, depth=0):
        """literal string every match starts with ('' if none)"""
        if depth > 30:
            return ""
        k = e["k"]
        if k == "str":
            return e["v"]
        if k == "seq":
            a = self.lit_prefix(e["a"], depth + 1)
            if a and self._is_exact_literal(e["a"]):
                return a + self.lit_prefix(e["b"], depth + 1)
            if a:
                return a
            if self.min_len(e["a"]) == 0 and e["a"]["k"] in ("pospred", "negpred"):
                return self.lit_prefix(e["b"], depth + 1)
            return ""
        if k == "ident" and e["v"] in self.G.rules:
            return self.lit_prefix(self._expr(e["v"]), depth + 1)
        if k in ("reponce", "push"):
            return self.lit_prefix(e["x"], depth + 1)
        if k == "choice":
            a, b = self.lit_prefix(e["a"], depth + 1), self.lit_prefix(e["b"], depth + 1)
            n = 0
            while n < min(len(a), len(b)) and a[n] == b[n]:
                n += 1
            return a[:n]
        return ""

    def _is_exact_literal(self, e):
        return e["k"] == "str"

    def lit_suffix(self, e, depth=0):
        if depth > 30:
            return ""
        k = e["k"]
        if k == "str":
            return e["v"]
        if k == "seq":
            b = self.lit_suffix(e["b"], depth + 1)
            if b and self._is_exact_literal(e["b"]):
                return self.lit_suffix(e["a"], depth + 1) + b
            return b
        if k == "ident" and e["v"] in self.G.rules:
            return self.lit_suffix(self._expr(e["v"]), depth + 1)
        if k in ("reponce", "push"):
            return self.lit_suffix(e["x"], depth + 1)
        return ""

    def always_contains(self, e, depth=0):
        """literal strings present in every match (top-level sequence members and mandatory repeats)"""
        if depth > 30:
            return set()
        k = e["k"]
        if k == "str":
            return {e["v"]}
        if k == "seq":
            return self.always_contains(e["a"], depth + 1) | self.always_contains(e["b"], depth + 1)
        if k in ("reponce", "push"):
            return self.always_contains(e["x"], depth + 1)
        if k == "choice":
            return self.always_contains(e["a"], depth + 1) & self.always_contains(e["b"], depth + 1)
        if k == "ident" and e["v"] in self.G.rules:
            return self.always_contains(self._expr(e["v"]), depth + 1)
        return set()

    def finite_set(self, e, depth=0):
        """the finite set of strings the expression matches, or None"""
        if depth > 30:
            return None
        k = e["k"]
        if k == "str":
            return {e["v"]}
        if k == "choice":
            a, b = self.finite_set(e["a"], depth + 1), self.finite_set(e["b"], depth + 1)
            if a is None or b is None:
                return None
            return a | b
        if k == "ident" and e["v"] in self.G.rules:
            return self.finite_set(self._expr(e["v"]), depth + 1)
        return None

    def implicit_ws_possible(self, name):
        """can WHITESPACE/COMMENT occur *inside* the text of this rule? (not for atomic rules or single-token rules)"""
        r = self.G.rules[name]
        if r["ty"] in ("atomic", "compound_atomic"):
            return False
        return self._has_seq_or_rep(r["expr"])

    def _has_seq_or_rep(self, e):
        k = e["k"]
        if k in ("seq", "rep", "reponce", "repexact", "repmin", "repmax", "repminmax"):
            return True
        if k == "choice":
            return self._has_seq_or_rep(e["a"]) or self._has_seq_or_rep(e["b"])
        if k in ("opt", "push"):
            return self._has_seq_or_rep(e["x"])
        return False

    def facts(self, name):
        e = self._expr(name)
        return {
            "min_len": self.min_len(e), "prefix": self.lit_prefix(e), "suffix": self.lit_suffix(e),
            "contains": self.always_contains(e), "finite": self.finite_set(e), "ws_inside": self.implicit_ws_possible(name),
            "atomic": self.G.rules[name]["ty"] == "atomic",
        }


# ---------------------------------------------------------------------------------------------------------------------
# G-REPARSE: exponential re-parsing.  pest is a PEG engine without memoisation: when an attempt `X ~ tail` fails at `tail`
# and the continuation starts with X again, X is parsed twice at the same position.  If X can contain the enclosing
# construct (nesting), every level doubles the work: 2^depth.
# ---------------------------------------------------------------------------------------------------------------------
class Reparse:
    def __init__(self, rules_json):
        self.rules = {r["name"]: r for r in rules_json}
        self._null = {}
        self._reach = {}
        self._lc = {}

    def nullable(self, e, stack=()):
        k = e["k"]
        if k == "str":
            return e["v"] == ""
        if k in ("opt", "rep", "repmax", "pospred", "negpred", "peekslice", "skip"):
            return True
        if k in ("insens", "range"):
            return False
        if k == "ident":
            n = e["v"]
            if n not in self.rules:
                return n in ("SOI", "EOI", "PEEK", "POP", "DROP", "PEEK_ALL", "POP_ALL")
            if n in self._null:
                return self._null[n]
            if n in stack:
                return False
            v = self.nullable(self.rules[n]["expr"], stack + (n,))
            self._null[n] = v
            return v
        if k == "seq":
            return self.nullable(e["a"], stack) and self.nullable(e["b"], stack)
        if k == "choice":
            return self.nullable(e["a"], stack) or self.nullable(e["b"], stack)
        if k in ("reponce", "repmin", "push", "repexact", "repminmax"):
            return self.nullable(e["x"], stack)
        return False

    def lead(self, e):
        """rule names that can be invoked at the start position of e (direct, not through other rules)"""
        k = e["k"]
        if k == "ident":
            return {e["v"]} if e["v"] in self.rules else set()
        if k == "seq":
            s = self.lead(e["a"])
            if self.nullable(e["a"]):
                s = s | self.lead(e["b"])
            return s
        if k == "choice":
            return self.lead(e["a"]) | self.lead(e["b"])
        if k in ("opt", "rep", "repmax", "reponce", "repmin", "push", "repexact", "repminmax"):
            return self.lead(e["x"])
        return set()

    def left_corners(self, e):
        """all rules that can be entered at the start position of e, transitively"""
        out = set()
        todo = list(self.lead(e))
        while todo:
            n = todo.pop()
            if n in out:
                continue
            out.add(n)
            todo.extend(self.lead(self.rules[n]["expr"]))
        return out

    def mentions(self, e):
        k = e["k"]
        if k == "ident":
            return {e["v"]} if e["v"] in self.rules else set()
        s = set()
        for c in ("a", "b", "x"):
            if c in e and isinstance(e[c], dict):
                s |= self.mentions(e[c])
        return s

    def reach(self, n):
        if n in self._reach:
            return self._reach[n]
        out = set()
        todo = list(self.mentions(self.rules[n]["expr"]))
        while todo:
            m = todo.pop()
            if m in out:
                continue
            out.add(m)
            todo.extend(self.mentions(self.rules[m]["expr"]))
        self._reach[n] = out
        return out

    def _flatten(self, e):
        if e["k"] == "seq":
            return self._flatten(e["a"]) + self._flatten(e["b"])
        return [e]

    def _fails_after(self, x, X):
        """can an attempt of x fail *after* having parsed X at its start?  True iff something non-nullable follows the
        leading position where X is entered (x is not just X)."""
        items = self._flatten(x)
        # find the first item whose left corners contain X; something non-nullable must follow it
        for i, it in enumerate(items):
            if X in self.left_corners(it) or (it["k"] == "ident" and it["v"] == X):
                rest = items[i + 1:]
                if any(not self.nullable(r) for r in rest):
                    return True
                # or X is entered deeper inside `it` and followed by something there
                if it["k"] == "ident" and it["v"] != X and it["v"] in self.rules:
                    return self._fails_after(self.rules[it["v"]]["expr"], X)
                return False
            if not self.nullable(it):
                return False
        return False

    def sites(self):
        """[(rule, description, X)]"""
        out = []
        for name, r in self.rules.items():
            self._walk(name, r["expr"], out)
        return out

    def _seq_of(self, items):
        if not items:
            return {"k": "str", "v": ""}
        e = items[0]
        for it in items[1:]:
            e = {"k": "seq", "a": e, "b": it}
        return e

    def _nesting(self, X, rule):
        return X in self.reach(X) and (rule == X or rule in self.reach(X))

    def _walk(self, rule, e, out):
        k = e["k"]
        if k == "seq":
            items = self._flatten(e)
            for i, it in enumerate(items):
                if it["k"] in ("rep", "opt", "reponce", "repmax", "repmin", "repminmax"):
                    body = it["x"]
                    rest = self._seq_of(items[i + 1:])
                    common = (self.left_corners(body) | self.lead(body)) & (self.left_corners(rest) | self.lead(rest))
                    # the outermost common rule is the one whose re-parse costs most; report each nesting one that is a direct lead
                    for X in sorted(common & self.lead(body)):
                        if self._nesting(X, rule) and self._fails_after(body, X):
                            out.append((rule, "`%s` is attempted inside a repetition/option whose body continues after it, and again right after that repetition" % X, X))
            for it in items:
                self._walk(rule, it, out)
            return
        if k == "choice":
            alts = []

            def fl(c):
                if c["k"] == "choice":
                    fl(c["a"])
                    fl(c["b"])
                else:
                    alts.append(c)
            fl(e)
            for i in range(len(alts)):
                for j in range(i + 1, len(alts)):
                    common = self.lead(alts[i]) & (self.left_corners(alts[j]) | self.lead(alts[j]))
                    for X in sorted(common):
                        if self._nesting(X, rule) and self._fails_after(alts[i], X):
                            out.append((rule, "alternatives %d and %d both start with `%s`: when the first fails after it, `%s` is parsed again" % (i + 1, j + 1, X, X), X))
            for a in alts:
                self._walk(rule, a, out)
            return
        for c in ("a", "b", "x"):
            if c in e and isinstance(e[c], dict):
                self._walk(rule, e[c], out)


# ------------------------------------------------------------------------------------------
# G-SKIP: implicit whitespace / comment skipping never competes with what a rule can match

WS_CHARS = (" ", "\t", "\n", "\r")
_CHAR_BUILTINS = {"ASCII_ALPHA": lambda c: c.isascii() and c.isalpha(), "ASCII_ALPHANUMERIC": lambda c: c.isascii() and c.isalnum(),
                  "ASCII_DIGIT": lambda c: c in "0123456789", "ASCII_HEX_DIGIT": lambda c: c in "0123456789abcdefABCDEF",
                  "ASCII_NONZERO_DIGIT": lambda c: c in "123456789", "ASCII_BIN_DIGIT": lambda c: c in "01", "ASCII_OCT_DIGIT": lambda c: c in "01234567",
                  "ASCII_ALPHA_LOWER": lambda c: c.isascii() and c.islower(), "ASCII_ALPHA_UPPER": lambda c: c.isascii() and c.isupper(),
                  "NEWLINE": lambda c: c in "\r\n", "ANY": lambda c: True, "ASCII": lambda c: c.isascii()}


def skip_ambiguities(grammar):
    """[(rule, what)]: places where pest's implicit skip (WHITESPACE / COMMENT between the elements of a sequence and between the
    iterations of a repetition, in every rule that is not atomic) is followed by something that can itself *begin with a
    whitespace character*.  There the skip wins: the leading blanks (and anything that looks like a comment) of what the
    template author wrote - the content of a string literal, say - are dropped before the rule that should have captured them
    gets to see them.  In a sound lexical grammar every rule that can match blanks is reached only inside atomic rules."""
    rules = {r["name"]: r for r in grammar}
    if "WHITESPACE" not in rules and "COMMENT" not in rules:
        return [], []

    def nullable(e, seen=()):
        k = e["k"]
        if k == "str":
            return e["v"] == ""
        if k in ("rep", "opt", "negpred", "pospred"):
            return True
        if k == "reponce":
            return nullable(e["x"], seen)
        if k == "seq":
            return nullable(e["a"], seen) and nullable(e["b"], seen)
        if k == "choice":
            return nullable(e["a"], seen) or nullable(e["b"], seen)
        if k == "ident":
            v = e["v"]
            if v in ("SOI", "EOI"):
                return True
            if v in rules and v not in seen:
                return nullable(rules[v]["expr"], seen + (v,))
            return False
        return False

    def blocks(e, c):
        """a negative lookahead on e certainly fails a position that starts with c (e always matches there)"""
        k = e["k"]
        if k == "str":
            return e["v"] == c
        if k == "range":
            return e.get("a", "") <= c <= e.get("b", "")
        if k == "choice":
            return blocks(e["a"], c) or blocks(e["b"], c)
        if k == "ident" and e["v"] in _CHAR_BUILTINS:
            return _CHAR_BUILTINS[e["v"]](c)
        if k == "ident" and e["v"] in rules:
            return blocks(rules[e["v"]]["expr"], c)
        return False

    def starts(e, c, seen=()):
        """can e match a text that begins with the character c"""
        k = e["k"]
        if k == "str":
            return e["v"].startswith(c)
        if k == "insens":
            return e["v"].lower().startswith(c.lower())
        if k == "range":
            return e.get("a", "") <= c <= e.get("b", "")
        if k == "ident":
            v = e["v"]
            if v in _CHAR_BUILTINS:
                return _CHAR_BUILTINS[v](c)
            if v in rules and v not in seen:
                return starts(rules[v]["expr"], c, seen + (v,))
            return False
        if k == "seq":
            a, b = e["a"], e["b"]
            if a["k"] == "negpred":
                return (not blocks(a["x"], c)) and starts(b, c, seen)
            return starts(a, c, seen) or (nullable(a) and starts(b, c, seen))
        if k == "choice":
            return starts(e["a"], c, seen) or starts(e["b"], c, seen)
        if k in ("rep", "opt", "reponce"):
            return starts(e["x"], c, seen)
        return False

    # rules that can run outside an atomic context
    refs = {}

    def collect(e, out):
        if e["k"] == "ident" and e["v"] in rules:
            out.add(e["v"])
        for kk in ("a", "b", "x"):
            if isinstance(e.get(kk), dict):
                collect(e[kk], out)
    for n, r in rules.items():
        s = set()
        collect(r["expr"], s)
        refs[n] = s
    referenced = set().union(*refs.values()) if refs else set()
    na = {n for n, r in rules.items() if n not in referenced and r["ty"] in ("normal", "silent", "nonatomic")}
    na |= {n for n, r in rules.items() if r["ty"] == "nonatomic"}
    work = list(na)
    while work:
        n = work.pop()
        if rules[n]["ty"] not in ("normal", "silent", "nonatomic"):
            continue
        for m in refs[n]:
            if m not in na and rules[m]["ty"] in ("normal", "silent", "nonatomic") and m not in ("WHITESPACE", "COMMENT"):
                na.add(m)
                work.append(m)
    out = []

    def describe(e):
        if e["k"] == "ident":
            return "`%s`" % e["v"]
        if e["k"] == "str":
            return "%r" % e["v"]
        return "a %s group" % e["k"]

    def scan(n, e):
        k = e["k"]
        if k == "seq":
            b = e["b"]
            hit = [c for c in WS_CHARS if starts(b, c)]
            if hit:
                out.append((n, "in the sequence of rule `%s` the implicit skip is followed by %s, which can itself begin with a blank" % (n, describe(b))))
        if k in ("rep", "reponce"):
            hit = [c for c in WS_CHARS if starts(e["x"], c)]
            if hit:
                out.append((n, "rule `%s` repeats %s, which can begin with a blank, with the implicit skip between the iterations" % (n, describe(e["x"]))))
        for kk in ("a", "b", "x"):
            if isinstance(e.get(kk), dict):
                scan(n, e[kk])
    for n in sorted(na):
        if n in ("WHITESPACE", "COMMENT"):
            continue
        scan(n, rules[n]["expr"])
    return out, sorted(na)
