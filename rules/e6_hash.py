"""E6 -- HASHORDER: iteration order of RandomState hash containers reaching ordered output."""
import re

from . import mir
from .common import is_derive, site_in_derive

HASH_TY = re.compile(r"std::collections::Hash(Map|Set)<")
ITER_RE = re.compile(r"std::collections::Hash(Map|Set)::<.*>::(iter|iter_mut|into_iter|values|values_mut|keys|drain|into_keys|into_values)$")
NEUTRAL_TERMINALS = ("all", "any", "count", "sum", "min", "max", "min_by_key", "max_by_key", "contains", "is_empty", "len", "for_each_neutral")
ORDERED_TARGET = re.compile(r"std::vec::Vec<|std::string::String|std::collections::VecDeque<|\[")
UNORDERED_TARGET = re.compile(r"std::collections::(HashMap|HashSet|BTreeMap|BTreeSet)<|serde_json::Map<")


CURRENT_F = None     # set by the property modules: the fact base, for looking into comparator closures


def comparator_defect(t):
    """`sort_by(|a, b| (&a.x, a.y).cmp(&(&b.x, b.y)))`: a defect of the comparator that leaves distinct elements unordered - a
    component of the right-hand key taken from the *left* element (or vice versa), or different fields on the two sides.
    None when the comparator is fine or not of a recognised shape."""
    F = CURRENT_F
    if F is None or not (t.get("callee") or "").endswith(("::sort_by", "::sort_unstable_by")):
        return None
    cl = [F.fns[c] for c in t.get("fnrefs") or () if c in F.fns]
    if len(cl) != 1:
        return None
    C = cl[0]
    du = mir.DefUse(C)

    def comps(op):
        """[(side, fields)] of the components of a compared key"""
        out = []
        for o in mir.provenance(C, du, op):
            if o.kind == "agg" and "tuple" in o.rv:
                for x in o.rv["ops"]:
                    out.append(side_of(x))
                return out
        return [side_of(op)]

    def side_of(op):
        sides, fields = set(), ()
        for o in mir.provenance(C, du, op):
            if o.kind == "arg" and o.local in (2, 3):
                sides.add("a" if o.local == 2 else "b")
                fields = tuple(x for x in o.proj if x.startswith(".") and not x[1:].isdigit())
        return (sides, fields)
    for bi, t2 in mir.calls(C):
        c2 = (t2.get("callee") or "").split("::")[-1]
        if c2 not in ("cmp", "partial_cmp") or len(t2["args"]) != 2:
            continue
        left, right = comps(t2["args"][0]), comps(t2["args"][1])
        if len(left) != len(right):
            return "the two keys have different shapes"
        for (ls, lf), (rs, rf) in zip(left, right):
            if not ls or not rs:
                continue
            if ls == rs:
                return "component `%s` is taken from the same element on both sides" % ("".join(lf) or "self")
            if lf != rf:
                return "`%s` of one element is compared with `%s` of the other" % ("".join(lf), "".join(rf))
    return None


def is_hash_iter(t):
    c = t.get("callee") or ""
    r = t.get("resolved") or ""
    if ITER_RE.search(c):
        return c
    if c == "std::iter::IntoIterator::into_iter" and re.search(r"^<(&(mut )?)?std::collections::Hash(Map|Set)<", r):
        return r
    g = t.get("gargs") or []
    if c == "std::iter::IntoIterator::into_iter" and g and HASH_TY.search(g[0]) and g[0].lstrip("&mut ").startswith("std::collections::Hash"):
        return "into_iter on " + g[0][:60]
    return None


def classify(fn, bb):
    """terminal consumer of the iterator produced by the call in block bb: ("neutral"|"ordered"|"unknown", reason)"""
    blocks = fn["blocks"]
    t = blocks[bb]["t"]
    cur = t["dest"]["l"]
    # an `IntoIterator::into_iter` / `iter()` impl of a workspace wrapper type that merely hands the container's iterator on
    # (`fn into_iter(self) -> Self::IntoIter { self.0.into_iter() }`): nothing is consumed here; what the order means is
    # decided where that iterator is consumed
    if cur == 0 and not t["dest"]["p"] and fn.get("impl_trait") in ("std::iter::IntoIterator",) and fn.get("name") == "into_iter":
        return "neutral", "the wrapper's into_iter() returns the container's iterator unconsumed"
    seen = set()
    cfg = mir.CFG(fn)
    # forward: follow the local through moves and adaptor calls
    frontier = [cur]
    hops = 0
    while frontier and hops < 60:
        hops += 1
        l = frontier.pop()
        if l in seen:
            continue
        seen.add(l)
        for bi, b in enumerate(blocks):
            if b["cleanup"] or bi not in cfg.reach:
                continue
            for s in b["s"]:
                rv = s["rv"]
                ops = mir.all_operands_of_rv(rv)
                pls = [mir.op_place(o) for o in ops] + ([rv["pl"]] if rv["k"] in ("ref", "rawptr") else [])
                if any(pl is not None and pl["l"] == l for pl in pls) and not s["lhs"]["p"]:
                    frontier.append(s["lhs"]["l"])
            tt = b["t"]
            if tt["k"] != "call":
                continue
            if not any((mir.op_place(a) or {}).get("l") == l for a in tt["args"]):
                continue
            c = tt.get("callee") or ""
            name = c.split("::")[-1]
            if c.startswith("std::iter::Iterator::") or c == "std::iter::IntoIterator::into_iter":
                if name == "collect":
                    g = tt.get("gargs") or []
                    target = g[1] if len(g) > 1 else ""
                    if UNORDERED_TARGET.search(target):
                        return "neutral", "collected into %s" % target.split("<")[0].split("::")[-1]
                    # collected into a sequence that is sorted before anything else uses it
                    du = mir.DefUse(fn)
                    dl = tt["dest"]["l"]
                    roots = {dl}
                    for _ in range(3):
                        for bj, b2 in enumerate(blocks):
                            for s2 in b2["s"]:
                                if s2["rv"]["k"] == "use" and (mir.op_place(s2["rv"]["op"]) or {}).get("l") in roots and not s2["lhs"]["p"]:
                                    roots.add(s2["lhs"]["l"])
                    for bj, b2 in enumerate(blocks):
                        t2 = b2["t"]
                        if b2["cleanup"] or t2["k"] != "call":
                            continue
                        c2 = t2.get("callee") or ""
                        if re.search(r"::(sort|sort_by|sort_by_key|sort_unstable|sort_unstable_by|sort_unstable_by_key)$", c2) and cfg.dominates(bi, bj):
                            for o in mir.provenance(fn, du, t2["args"][0], transparent_extra=("std::ops::DerefMut::deref_mut",)):
                                if o.kind in ("local", "call") and (o.local in roots or (o.kind == "call" and o.bb == bi)):
                                    bad = comparator_defect(t2)
                                    if bad:
                                        return "ordered", "collected into a Vec and sorted with a comparator that does not order all elements (%s): elements it treats as equal keep the hash order" % bad
                                    return "neutral", "collected into a Vec that is sorted right after"
                    return "ordered", "collected into %s" % (target[:60] or "a sequence")
                if name in ("all", "any", "count", "sum", "min", "max", "min_by_key", "max_by_key", "fold_neutral"):
                    return "neutral", "consumed by %s()" % name
                if name in ("next", "last", "nth", "take", "skip", "find", "position", "find_map", "step_by", "first"):
                    # a for-loop drives `next`; decide on what the loop body does
                    if name == "next":
                        return loop_body_effect(fn, cfg, bi)
                    return "ordered", "consumed by %s()" % name
                if name == "fold":
                    return "unknown", "fold over a hash container (commutativity not decided)"
                if name == "for_each":
                    return "unknown", "for_each over a hash container"
                # adaptor: follow its result
                frontier.append(tt["dest"]["l"])
            elif name in ("extend",):
                g = tt.get("gargs") or []
                tgt = g[0] if g else (tt.get("resolved") or "")
                if UNORDERED_TARGET.search(tgt) or UNORDERED_TARGET.search(tt.get("resolved") or ""):
                    return "neutral", "extends an unordered/sorted container"
                return "ordered", "extends %s" % tgt[:50]
            elif c.endswith("::from_iter") or name == "from_iter":
                r = tt.get("resolved") or ""
                if UNORDERED_TARGET.search(r):
                    return "neutral", "from_iter into an unordered/sorted container"
                return "ordered", "from_iter into a sequence"
            else:
                frontier.append(tt["dest"]["l"])
    return "unknown", "consumer not recognised"


def loop_body_effect(fn, cfg, next_bb):
    """`for x in hash_container { body }`: neutral iff the body only inserts into unordered/sorted containers"""
    loops = cfg.loops()
    body = None
    for h, blks in loops.items():
        if next_bb in blks:
            if body is None or len(blks) < len(body):
                body = blks
    if body is None:
        return "ordered", "next() outside a loop (takes an arbitrary element)"
    ordered = []
    for b in body:
        t = fn["blocks"][b]["t"]
        if t["k"] != "call":
            continue
        c = t.get("callee") or ""
        name = c.split("::")[-1]
        if re.search(r"std::vec::Vec::<.*>::(push|insert|extend_from_slice)$", c) or re.search(r"std::string::String::(push|push_str)$", c) \
                or name in ("write", "write_all", "write_fmt", "serialize_field", "serialize_element") or c.startswith("std::io::"):
            ordered.append(name)
        if c == "std::ops::FromResidual::from_residual" and False:
            pass
    # loop-carried state: a variable assigned in the body from something that is not a commutative update of itself, and
    # read in the body at a point its in-body assignment does not dominate, carries a value from one iteration into the
    # next - which items come "before" then matters (`if let Some(f) = file { cfg = load(f) }; use(&cfg)`)
    du0 = mir.DefUse(fn)
    dom = cfg.dom()
    COMMUT = ("Add", "AddWithOverflow", "Mul", "MulWithOverflow", "BitOr", "BitAnd", "BitXor")
    for l, defs in du0.defs.items():
        inbody = [d for d in defs if d[1] in body]
        if not inbody or len(inbody) == len(defs) and l > fn["argc"] and not any(d[1] not in body for d in defs):
            continue   # never initialised outside the loop: a per-iteration temporary
        carried = []
        for d in inbody:
            if d[0] == "call":
                c0 = d[3].get("callee") or ""
                if c0.startswith("std::iter::") or c0.endswith("::next") or c0.startswith("std::ops::Try") or c0.startswith("std::ops::FromResidual"):
                    continue
                carried.append("the result of %s" % c0.split("::")[-1])
            else:
                rv = d[3]["rv"]
                if rv["k"] == "use" and mir.op_const(rv["op"]) is not None:
                    continue   # a flag set to a constant: idempotent
                if rv["k"] == "binop" and rv["op"] in COMMUT:
                    continue   # sum / product / bit-or accumulator
                if rv["k"] == "use":
                    pl = mir.op_place(rv["op"])
                    if pl is not None and pl["p"] and any(p[0] == "f" and p[1] == "0" for p in pl["p"]):
                        # `.0` of an overflow-checked commutative op on itself
                        src = [x for x in du0.defs.get(pl["l"], []) if x[0] == "stmt" and x[3]["rv"]["k"] == "binop" and x[3]["rv"]["op"] in COMMUT]
                        if src:
                            continue
                if rv["k"] in ("discr", "ref", "rawptr"):
                    continue
                carried.append("a value computed in the loop")
        if not carried:
            continue
        ty = fn["locals"][l] if l < len(fn["locals"]) else ""
        if ty in ("bool", "()", "isize", "!") or ty.startswith("&") or "Iter" in ty or "ControlFlow" in ty or "std::option::Option<" in ty and "next" in ty:
            continue
        def_blocks = {d[1] for d in inbody}
        # a read of l inside the body that no in-body definition dominates
        for b in body:
            blk = fn["blocks"][b]
            reads = False
            for st in blk["s"]:
                for o in mir.all_operands_of_rv(st["rv"]):
                    pl = mir.op_place(o)
                    if pl is not None and pl["l"] == l:
                        reads = True
                if st["rv"]["k"] in ("ref", "rawptr", "discr") and st["rv"]["pl"]["l"] == l:
                    reads = True
            t = blk["t"]
            if t["k"] == "call":
                for a in t["args"]:
                    pl = mir.op_place(a)
                    if pl is not None and pl["l"] == l:
                        reads = True
            if reads and b not in def_blocks and not any(db in dom.get(b, ()) for db in def_blocks):
                nm = next((n for n, vpl in fn.get("vars", ()) if vpl["l"] == l and not vpl["p"]), "_%d" % l)
                return "ordered", "the loop carries `%s` (%s) from one iteration into the next: what a later item sees depends on which items came before it" % (nm, carried[0])
    # inserts into a map are order-neutral only when distinct items get distinct keys: the key must be the iterated item
    # itself (moved, borrowed, cloned, converted 1:1), not something computed from it (to_lowercase, trim, a constant ...)
    du = mir.DefUse(fn)
    IDENT = ("std::clone::Clone::clone", "std::borrow::ToOwned::to_owned", "std::string::ToString::to_string", "std::convert::From::from",
             "std::convert::Into::into", "std::convert::AsRef::as_ref", "std::string::String::as_str", "std::ops::Deref::deref",
             "std::borrow::Borrow::borrow", "alloc::str::<impl str>::to_owned", "std::string::String::from")
    for b in body:
        t = fn["blocks"][b]["t"]
        if t["k"] != "call":
            continue
        c = t.get("callee") or ""
        if re.search(r"(BTreeMap|HashMap|IndexMap)::<.*>::insert$", c) and len(t["args"]) >= 3:
            org = mir.provenance(fn, du, t["args"][1], transparent_extra=IDENT)
            from_item = any(o.kind == "call" and o.bb == next_bb for o in org)
            if from_item:
                # ... and the whole item: a component of it (`(profile, file)` in a set, keyed by `profile`) is not unique
                # among the items unless it is the key half of a map's own `(key, value)` entries
                it_ty = " ".join(fn["blocks"][next_bb]["t"].get("gargs") or ())
                for o in org:
                    if o.kind != "call" or o.bb != next_bb:
                        continue
                    parts = [q for q in list(o.proj)[2:] if q.startswith(".")] if list(o.proj)[:1] == [" as Some"] else [q for q in o.proj if q.startswith(".")]
                    if parts and not (re.search(r"(hash_map|btree_map|indexmap::map)::", it_ty) and parts[0] == ".0"):
                        return "ordered", "loop body inserts into a map under a key that is only a part (%s) of the iterated item: items that agree on it overwrite each other in hash order" % "".join(parts)
            if not from_item:
                via = sorted({o.callee.split("::")[-1] for o in org if o.kind == "call"} | {"a constant" for o in org if o.kind == "const"})
                return "ordered", "loop body inserts into a map under a key that is not the iterated item itself (computed via %s): items whose keys collide overwrite each other in hash order" % (", ".join(via) or "another value")
    if ordered:
        # every sequence the body appends to is sorted after the loop (before anything else can look at it)
        pushes = [fn["blocks"][b]["t"] for b in body if fn["blocks"][b]["t"]["k"] == "call" and re.search(r"std::vec::Vec::<.*>::(push|insert|extend_from_slice)$", fn["blocks"][b]["t"].get("callee") or "")]
        others = [x for x in ordered if x not in ("push", "insert", "extend_from_slice")]
        if pushes and not others:
            def vec_roots(op):
                return {o.local for o in mir.provenance(fn, du, op, transparent_extra=("std::ops::DerefMut::deref_mut",)) if o.kind in ("local", "arg")} | \
                       {(o.bb, "call") for o in mir.provenance(fn, du, op, transparent_extra=("std::ops::DerefMut::deref_mut",)) if o.kind == "call"}
            all_sorted = True
            for pt in pushes:
                r = vec_roots(pt["args"][0])
                found = False
                for bj, b2 in enumerate(fn["blocks"]):
                    t2 = b2["t"]
                    if b2["cleanup"] or t2["k"] != "call" or bj in body:
                        continue
                    if re.search(r"::(sort|sort_by|sort_by_key|sort_unstable|sort_unstable_by|sort_unstable_by_key)$", t2.get("callee") or "") \
                            and cfg.dominates(next_bb, bj) and (vec_roots(t2["args"][0]) & r):
                        found = True
                if not found:
                    all_sorted = False
            if all_sorted:
                return "neutral", "loop body appends to a Vec that is sorted after the loop"
        return "ordered", "loop body appends to a sequence (%s)" % ",".join(sorted(set(ordered)))
    return "neutral", "loop body only updates unordered / sorted containers"
