use super::*;
use crate::c14::{base_tx, cm_compiler};
use tx3_tir::compile::Compiler as _;
use tx3_tir::model::v1beta0::{Expression as E, *};
use pallas::ledger::traverse::MultiEraTx;

fn num(x: i128) -> E { E::Number(x) }
fn ada(x: i128) -> E { E::Assets(vec![AssetExpr{ policy: E::None, asset_name: E::None, amount: num(x) }]) }
fn tok(p: Vec<u8>, n: &[u8], x: i128) -> E { E::Assets(vec![AssetExpr{ policy: E::Bytes(p), asset_name: E::Bytes(n.to_vec()), amount: num(x) }]) }

fn show(tx: Tx) -> String {
    let mut c = cm_compiler();
    match c.compile(&AnyTir::V1Beta0(tx)) {
        Err(e) => format!("Err({e})"),
        Ok(x) => {
            let t = MultiEraTx::decode(&x.payload).unwrap();
            let t = t.as_conway().unwrap();
            let b = &t.transaction_body;
            let outs: Vec<String> = b.outputs.iter().map(|o| match o { pallas::ledger::primitives::conway::TransactionOutput::PostAlonzo(p) => format!("{:?}", p.value), _ => "legacy".into() }).collect();
            format!("Ok fee={} ttl={:?} start={:?} outs={:?} mint={:?} wdr={:?} donation={:?} aux={:?}", b.fee, b.ttl, b.validity_interval_start, outs, b.mint, b.withdrawals, b.donation, t.auxiliary_data)
        }
    }
}

pub fn run() {
    let p = vec![7u8; 28];
    let cases: Vec<(&str, Box<dyn Fn() -> String>)> = vec![
        ("output lovelace -1", Box::new(|| { let mut t = base_tx(); t.outputs[0].amount = ada(-1); show(t) })),
        ("output lovelace 2^64+5", Box::new(|| { let mut t = base_tx(); t.outputs[0].amount = ada((1i128<<64)+5); show(t) })),
        ("fee -1", Box::new(|| { let mut t = base_tx(); t.fees = ada(-1); show(t) })),
        ("validity since -1 / until 2^64+7", Box::new(|| { let mut t = base_tx(); t.validity = Some(Validity{ since: num(-1), until: num((1i128<<64)+7) }); show(t) })),
        ("output token amount 2^63 (amount as i64 > 0 is false: asset dropped)", Box::new({ let p=p.clone(); move || { let mut t = base_tx(); t.outputs[0].amount = tok(p.clone(), b"A", 1i128<<63); show(t) } })),
        ("output token amount 2^64+1 (truncated to 1)", Box::new({ let p=p.clone(); move || { let mut t = base_tx(); t.outputs[0].amount = tok(p.clone(), b"A", (1i128<<64)+1); show(t) } })),
        ("output token amount -5 (dropped)", Box::new({ let p=p.clone(); move || { let mut t = base_tx(); t.outputs[0].amount = tok(p.clone(), b"A", -5); show(t) } })),
        ("mint 2^64+1 (truncated to 1)", Box::new({ let p=p.clone(); move || { let mut t = base_tx(); t.mints.push(Mint{ amount: tok(p.clone(), b"A", (1i128<<64)+1), redeemer: E::None }); show(t) } })),
        ("burn 2^64+1 (truncated to -1)", Box::new({ let p=p.clone(); move || { let mut t = base_tx(); t.burns.push(Mint{ amount: tok(p.clone(), b"A", (1i128<<64)+1), redeemer: E::None }); show(t) } })),
        ("two mints of i64::MAX of one asset (overflow -> entry removed)", Box::new({ let p=p.clone(); move || { let mut t = base_tx(); t.mints.push(Mint{ amount: tok(p.clone(), b"A", i64::MAX as i128), redeemer: E::None }); t.mints.push(Mint{ amount: tok(p.clone(), b"A", i64::MAX as i128), redeemer: E::None }); show(t) } })),
        ("two outputs tokens u64::MAX + u64::MAX in one output (PositiveCoin overflow -> removed)", Box::new({ let p=p.clone(); move || { let mut t = base_tx(); t.outputs[0].amount = E::Assets(vec![AssetExpr{policy:E::None,asset_name:E::None,amount:num(2000000)}, AssetExpr{policy:E::Bytes(p.clone()),asset_name:E::Bytes(b"A".to_vec()),amount:num(i64::MAX as i128)}, AssetExpr{policy:E::Bytes(p.clone()),asset_name:E::Bytes(b"A".to_vec()),amount:num(u64::MAX as i128 - (i64::MAX as i128) + 5)}]); show(t) } })),
        ("metadata key -1, value 2^64+5", Box::new(|| { let mut t = base_tx(); t.metadata.push(Metadata{ key: num(-1), value: num((1i128<<64)+5) }); show(t) })),
        ("withdrawal amount -1", Box::new(|| { let mut t = base_tx(); t.adhoc.push(AdHocDirective{ name: "withdrawal".into(), data: BTreeMap::from([("credential".to_string(), E::Address(addr(ADDR_A))), ("amount".to_string(), num(-1)), ("redeemer".to_string(), E::None)]) }); show(t) })),
        ("donation 2^64+9", Box::new(|| { let mut t = base_tx(); t.adhoc.push(AdHocDirective{ name: "treasury_donation".into(), data: BTreeMap::from([("coin".to_string(), num((1i128<<64)+9))]) }); show(t) })),
        ("publish version 259 (as u8 = 3)", Box::new(|| { let mut t = base_tx(); t.adhoc.push(AdHocDirective{ name: "cardano_publish".into(), data: BTreeMap::from([("to".to_string(), E::Address(addr(ADDR_A))), ("amount".to_string(), ada(1)), ("version".to_string(), num(259)), ("script".to_string(), E::Bytes(vec![1,2,3]))]) }); let s = show(t); s.chars().take(200).collect() })),
        ("list index 2^64 (as usize = 0)", Box::new(|| { format!("{:?}", E::EvalBuiltIn(Box::new(BuiltInOp::Property(E::List(vec![num(10), num(20)]), num(1i128<<64)))).reduce()) })),
        ("struct field index 2^64+1", Box::new(|| { format!("{:?}", E::EvalBuiltIn(Box::new(BuiltInOp::Property(E::Struct(StructExpr{ constructor: 0, fields: vec![num(10), num(20)] }), num((1i128<<64)+1)))).reduce()) })),
        ("None - 5", Box::new(|| { format!("{:?}", E::EvalBuiltIn(Box::new(BuiltInOp::Sub(E::None, num(5)))).reduce()) })),
        ("None - Ada(5)", Box::new(|| { format!("{:?}", E::EvalBuiltIn(Box::new(BuiltInOp::Sub(E::None, ada(5)))).reduce()) })),
        ("ArgValue::from(u128::MAX)", Box::new(|| { format!("{:?}", ArgValue::from(u128::MAX)) })),
        ("min_utxo index 2^64 (as usize = 0)", Box::new(|| { let mut c = cm_compiler(); let _ = c.compile(&AnyTir::V1Beta0(base_tx())); format!("{:?}", c.reduce_op(CompilerOp::ComputeMinUtxo(num(1i128<<64)))).chars().take(120).collect() })),
        ("utxo ref index 2^32 in source", Box::new(|| { let tx = lower("party P; tx t() { input s { ref: 0xabababababababababababababababababababababababababababababababab#4294967296, } output { to: P, amount: Ada(1), } }", "t"); format!("{:?}", tx.inputs[0].utxos).chars().filter(|c| !c.is_whitespace()).collect::<String>().chars().rev().take(90).collect::<String>().chars().rev().collect() })),
    ];
    for (name, f) in cases {
        let r = std::panic::catch_unwind(std::panic::AssertUnwindSafe(f));
        match r { Ok(m) => println!("{:70} {}", name, m), Err(_) => println!("{:70} PANIC", name) }
    }
}
