use super::*;

pub fn run(which: &str) {
    match which {
        "c06_index_param" => c06_index_param(),
        "c07_publish_minutxo" => c07_publish_minutxo(),
        "c12_inputs" => c12_inputs(),
        "c14_sites" => crate::c14::run(),
        _ => panic!("unknown scenario {which}"),
    }
}

fn c06_index_param() {
    let src = r#"
party P;
tx t(xs: List<Int>, i: Int, p: Int) {
    input source { from: P, min_amount: Ada(2000000), }
    output { to: P, amount: Ada(xs[i]) + Ada(p), }
}
"#;
    let tx = lower(src, "t");
    let params = reduce::find_params(&tx);
    println!("params = {:?}", params.keys().collect::<Vec<_>>());
    let reported_i = params.contains_key("i");
    println!("index parameter reported: {}", reported_i);
    if !reported_i { println!("DEFECT: parameter `i` used as index is not reported"); }
}

fn c07_publish_minutxo() {
    let src = r#"
party P;
tx t() {
    input source { from: P, min_amount: Ada(5000000), }
    output chg { to: P, amount: source - Ada(1000000) - fees, }
    cardano::publish { to: P, amount: Ada(1000000) + min_utxo(chg), version: 3, script: 0xABCDEF, }
}
"#;
    let tx = lower(src, "t");
    let a = addr(ADDR_A);
    let store = Store(vec![utxo(1,0,&a,50_000_000)]);
    let mut c = compiler(44, 155381, None);
    let args: BTreeMap<String, ArgValue> = BTreeMap::from([("p".to_string(), ArgValue::Address(a.clone()))]);
    let r = pollster::block_on(tx3_resolver::resolve_tx(AnyTir::V1Beta0(tx), &args, &mut c, &store, 10));
    match r { Ok(x) => println!("OK fee={}", x.fee), Err(e) => println!("ERR {e}") }
}

fn c12_inputs() {
    let inputs = [
        "tx t() { output { amount: 99999999999999999999, } }",
        "tx t() { bitcoin::foo }",
        "type V { A(Int,), }",
        "tx t() { output { datum: Nope { a: 1, }, } }",
        "tx t() { input a { ref: 0xabc#1, } }",
        "tx t() { input a { ref: 0xab#99999999999999999999999, } }",
        "tx t() { input a { ref: 0x ab # 1, } }",
        "tx t() { cardano::stake_delegation_certificate { } }",
        "tx t() { cardano::stake_delegation_certificate { pool: 1, stake: 2, } }",
        "policy P { hash: H { a: 1, }, }\ntype H { a: Int, }\ntype T { f: H, }\ntx t() {}",
    ];
    for src in inputs {
        let r = std::panic::catch_unwind(|| {
            match tx3_lang::parsing::parse_string(src) {
                Ok(mut ast) => { let rep = tx3_lang::analyzing::analyze(&mut ast); format!("parsed; analyze errors={}", rep.errors.len()) }
                Err(e) => format!("parse error: {}", e.message),
            }
        });
        match r { Ok(m) => println!("OK    {:60} -> {}", src.replace('\n'," "), m), Err(_) => println!("PANIC {:60}", src.replace('\n'," ")) }
    }
}
