use super::*;

pub fn run(which: &str) {
    match which {
        "c06_index_param" => c06_index_param(),
        "c07_publish_minutxo" => c07_publish_minutxo(),
        "c12_inputs" => c12_inputs(),
        "c12_nesting" => c12_nesting(),
        "c12_selfref" => c12_selfref(),
        "c14_sites" => crate::c14::run(),
        "c13_inputs" => c13_inputs(),
        "c02_values" => crate::c02::run(),
        "c20_history" => crate::c20::run(),
        "c05_fee" => crate::c05::run(),
        "c08_redeemers" => crate::c08::run(),
        "c09_data" => crate::c08::run_c09(),
        "c17_collide" => c17_collide(),
        "c01_dropped" => crate::c08::run_c01(),
        "c03_foreign" => c03_foreign(),
        "c02_withdrawals" => crate::c08::run_c02_withdrawals(),
        _ => panic!("unknown scenario {which}"),
    }
}

fn c06_index_param() {
    let src = r#"
party P;
tx t(xs: List<Int>, i: Int, p: Int) {
    input source { from: P, min_amount: Ada(2000000), }
    output { to: P, amount: Ada(xs[i]) + Ada(p), }
}
"#;
    let tx = lower(src, "t");
    let params = reduce::find_params(&tx);
    println!("params = {:?}", params.keys().collect::<Vec<_>>());
    let reported_i = params.contains_key("i");
    println!("index parameter reported: {}", reported_i);
    if !reported_i { println!("DEFECT: parameter `i` used as index is not reported"); }
}

fn c07_publish_minutxo() {
    let src = r#"
party P;
tx t() {
    input source { from: P, min_amount: Ada(5000000), }
    output chg { to: P, amount: source - Ada(1000000) - fees, }
    cardano::publish { to: P, amount: Ada(1000000) + min_utxo(chg), version: 3, script: 0xABCDEF, }
}
"#;
    let tx = lower(src, "t");
    let a = addr(ADDR_A);
    let store = Store(vec![utxo(1,0,&a,50_000_000)]);
    let mut c = compiler(44, 155381, None);
    let args: BTreeMap<String, ArgValue> = BTreeMap::from([("p".to_string(), ArgValue::Address(a.clone()))]);
    let r = pollster::block_on(tx3_resolver::resolve_tx(AnyTir::V1Beta0(tx), &args, &mut c, &store, 10));
    match r { Ok(x) => println!("OK fee={}", x.fee), Err(e) => println!("ERR {e}") }
}

fn c12_inputs() {
    let inputs = [
        "tx t() { output { amount: 99999999999999999999, } }",
        "tx t() { bitcoin::foo }",
        "type V { A(Int,), }",
        "tx t() { output { datum: Nope { a: 1, }, } }",
        "tx t() { input a { ref: 0xabc#1, } }",
        "tx t() { input a { ref: 0xab#99999999999999999999999, } }",
        "tx t() { input a { ref: 0x ab # 1, } }",
        "tx t() { cardano::stake_delegation_certificate { } }",
        "tx t() { cardano::stake_delegation_certificate { pool: 1, stake: 2, } }",
        "policy P { hash: H { a: 1, }, }\ntype H { a: Int, }\ntype T { f: H, }\ntx t() {}",
    ];
    for src in inputs {
        let r = std::panic::catch_unwind(|| {
            match tx3_lang::parsing::parse_string(src) {
                Ok(mut ast) => { let rep = tx3_lang::analyzing::analyze(&mut ast); format!("parsed; analyze errors={}", rep.errors.len()) }
                Err(e) => format!("parse error: {}", e.message),
            }
        });
        match r { Ok(m) => println!("OK    {:60} -> {}", src.replace('\n'," "), m), Err(_) => println!("PANIC {:60}", src.replace('\n'," ")) }
    }
}

fn c12_nesting() {
    // nested list literals, last element without a trailing comma: [[[..[1]..]]]
    for depth in [8usize, 12, 16, 18, 20, 22] {
        for comma in [true, false] {
            let open = "[".repeat(depth);
            let close = if comma { ",]".repeat(depth) } else { "]".repeat(depth) };
            let src = format!("tx t() {{ output {{ datum: {open}1{close}, }} }}");
            let t0 = std::time::Instant::now();
            let r = tx3_lang::parsing::parse_string(&src).is_ok();
            println!("depth {:2} trailing commas {:5}: parsed={} in {:?}", depth, comma, r, t0.elapsed());
        }
    }
}

fn c12_selfref() {
    let inputs = [
        "type T { a: T, b: T, } type X = Int;",
        "type T { a: T, b: T, }",
        "type T { a: T, b: T, c: Undefined, }",
        "tx t() { locals { a: a + a + a + a, } }",
        "tx t() { locals { a: a + a + a + a + a + a + a + a, } }",
        "tx t() { locals { a: a + a, } }",
        "type Node { next: Node, }\ntx t() {}",
        "type Node { next: Node, }\ntype A = Int;\ntx t() {}",
        "type A = Int;\ntype Node { v: A, next: Node, }\ntx t() {}",
        "type A = B;\ntype B = A;\ntx t() {}",
        "type A = A;\ntx t() {}",
        "type L { items: List<L>, }\ntype A = Int;\ntx t() {}",
        "type X { a: Y, }\ntype Y { b: X, }\ntype A = Int;\ntx t() {}",
    ];
    for src in inputs {
        let (txc, rx) = std::sync::mpsc::channel();
        let s2 = src.to_string();
        std::thread::Builder::new().stack_size(64 << 20).spawn(move || {
            let r = std::panic::catch_unwind(|| match tx3_lang::parsing::parse_string(&s2) {
                Ok(mut ast) => { let rep = tx3_lang::analyzing::analyze(&mut ast); format!("parsed; analyze errors={}", rep.errors.len()) }
                Err(e) => format!("parse error: {}", e.message),
            });
            let _ = txc.send(match r { Ok(m) => m, Err(_) => "PANIC".to_string() });
        }).unwrap();
        match rx.recv_timeout(std::time::Duration::from_secs(10)) {
            Ok(m) => println!("{:70} -> {}", src.replace('\n', " "), m),
            Err(_) => println!("{:70} -> NO ANSWER within 10 s", src.replace('\n', " ")),
        }
    }
    std::process::exit(0);
}

fn c13_inputs() {
    let cases: Vec<(&str,&str)> = vec![
        ("record constructor missing a field, no spread", "party P; type R { a: Int, b: Int, } tx t() { input s { from: P, min_amount: Ada(2000000), } output { to: P, amount: Ada(2000000), datum: R { a: 1, }, } }"),
        ("Ada() with no argument", "party P; tx t() { input s { from: P, min_amount: Ada(), } output { to: P, amount: Ada(1), } }"),
        ("min_utxo() arity", "party P; tx t() { output o { to: P, amount: min_utxo(), } }"),
        ("tip_slot(1) arity", "party P; tx t() { validity { since_slot: tip_slot(1), } output { to: P, amount: Ada(1), } }"),
        ("slot_to_time() arity", "party P; tx t() { validity { since_slot: slot_to_time(), } output { to: P, amount: Ada(1), } }"),
        ("time_to_slot() arity", "party P; tx t() { validity { since_slot: time_to_slot(), } output { to: P, amount: Ada(1), } }"),
        ("party called as a function", "party P; tx t() { output { to: P, amount: P(1), } }"),
        ("odd-length hex literal", "party P; tx t() { output { to: P, amount: Ada(1), datum: 0xabc, } }"),
        ("type name used as a value", "party P; type R { a: Int, } tx t() { output { to: P, amount: R, } }"),
        ("asset name used as a value", "party P; asset A = 0xab.0xcd; tx t() { output { to: P, amount: A, } }"),
        ("builtin function name used as a value", "party P; tx t() { output { to: P, amount: min_utxo, } }"),
        ("withdrawal without from", "party P; tx t() { cardano::withdrawal { amount: 1, redeemer: (), } output { to: P, amount: Ada(1), } }"),
        ("withdrawal without amount", "party P; tx t() { cardano::withdrawal { from: P, redeemer: (), } output { to: P, amount: Ada(1), } }"),
        ("policy constructor without hash, referenced", "party P; policy Q { script: 0xabcd, } tx t() { output { to: Q, amount: Ada(1), } }"),
        ("property that resolves in the parent scope but is not a field", "party P; type R { a: Int, } tx t(q: Int, r: R) { output { to: P, amount: Ada(r.q), } }"),
        ("property on a non-record value", "party P; tx t(q: Int) { output { to: P, amount: Ada(q.q), } }"),
        ("implicit constructor on a variant type", "party P; type V { A { x: Int, }, B, } tx t() { output { to: P, amount: Ada(1), datum: V { x: 1, }, } }"),
        ("case of another type", "party P; type V { A { x: Int, }, B, } type W { C, } tx t() { output { to: P, amount: Ada(1), datum: V::C {}, } }"),
        ("struct constructor on a party name", "party P; tx t() { output { to: P, amount: Ada(1), datum: P { x: 1, }, } }"),
        ("alias of a primitive used as struct type", "party P; type I = Int; tx t() { output { to: P, amount: Ada(1), datum: I { x: 1, }, } }"),
        ("datum_is input field", "party P; type R { a: Int, } tx t() { input s { from: P, datum_is: R, min_amount: Ada(1), } output { to: P, amount: Ada(1), } }"),
        ("property access on a party (no target type)", "party P; tx t(q: Int) { output { to: P, amount: Ada(P.q), } }"),
        ("nested constructor naming a case of the enclosing type", "party P; type V { A, } type W { C { f: V, }, } tx t() { output { to: P, amount: Ada(1), datum: W::C { f: V::C {}, }, } }"),
        ("undefined identifier", "party P; tx t() { output { to: P, amount: Ada(zzz), } }"),
        ("chain of 8 locals ending in a parameter", "party P; tx t(q: Int) { locals { a1: a2, a2: a3, a3: a4, a4: a5, a5: a6, a6: a7, a7: a8, a8: q, } output { to: P, amount: Ada(a1), } }"),
        ("chain of 12 locals ending in a parameter", "party P; tx t(q: Int) { locals { a1: a2, a2: a3, a3: a4, a4: a5, a5: a6, a6: a7, a7: a8, a8: a9, a9: a10, a10: a11, a11: a12, a12: q, } output { to: P, amount: Ada(a1), } }"),
    ];
    let mut alias_chain = String::from("party P; type R { a: Int, } ");
    for i in 1..130 { alias_chain.push_str(&format!("type A{} = A{}; ", i, i + 1)); }
    alias_chain.push_str("type A130 = R; tx t(q: A1) { output { to: P, amount: Ada(1), datum: q, } }");
    let mut cases: Vec<(&str, String)> = cases.into_iter().map(|(a, b)| (a, b.to_string())).collect();
    cases.push(("chain of 130 type aliases ending in a record", alias_chain));
    for (name, src) in cases {
        let r = std::panic::catch_unwind(|| {
            let mut ws = tx3_lang::Workspace::from_string(src.to_string());
            if let Err(e) = ws.parse() { return format!("parse error: {e}"); }
            ws.analyze().unwrap();
            let n = ws.analisis().unwrap().errors.len();
            if n > 0 { return format!("analysis reports {} error(s): {}", n, ws.analisis().unwrap().errors[0]); }
            let ast = ws.ast().unwrap();
            match tx3_lang::lowering::lower(ast, "t") { Ok(_) => "analysis clean; lowering Ok".to_string(), Err(e) => format!("analysis clean; lowering Err({e})") }
        });
        match r { Ok(m) => println!("{:62} -> {}", name, m), Err(_) => println!("{:62} -> analysis clean; lowering PANIC", name) }
    }
}

fn c17_collide() {
    let src = "party Owner; tx t(owner: Int) { input s { from: Owner, min_amount: Ada(owner), } output { to: Owner, amount: Ada(owner), } }";
    let mut ws = tx3_lang::Workspace::from_string(src.to_string());
    ws.analyze().unwrap();
    println!("party `Owner` + parameter `owner`: analysis errors = {}", ws.analisis().unwrap().errors.len());
    ws.lower().unwrap();
    let params = reduce::find_params(ws.tir("t").unwrap());
    println!("find_params = {:?}", params);
    let src2 = "party P; tx t() { input a { from: P, min_amount: Ada(1000000), } input A { from: P, min_amount: Ada(1000000), } output { to: P, amount: a + A - fees, } }";
    let mut ws = tx3_lang::Workspace::from_string(src2.to_string());
    ws.analyze().unwrap();
    println!("inputs `a` and `A`: analysis errors = {}", ws.analisis().unwrap().errors.len());
    ws.lower().unwrap();
    let q = reduce::find_queries(ws.tir("t").unwrap());
    println!("find_queries keys = {:?}", q.keys().collect::<Vec<_>>());
    let a = addr(ADDR_A);
    let store = Store(vec![utxo(2, 0, &a, 50_000_000), utxo(3, 0, &a, 60_000_000)]);
    let args: BTreeMap<String, ArgValue> = BTreeMap::from([("p".to_string(), ArgValue::Address(a.clone()))]);
    let mut c = crate::c14::cm_compiler();
    let r = pollster::block_on(tx3_resolver::resolve_tx(AnyTir::V1Beta0(ws.tir("t").unwrap().clone()), &args, &mut c, &store, 10));
    match r { Ok(x) => { let t = pallas::ledger::traverse::MultiEraTx::decode(&x.payload).unwrap(); let b = &t.as_conway().unwrap().transaction_body; println!("resolved: inputs = {:?}", b.inputs.iter().map(|i| (i.transaction_id.to_string()[..4].to_string(), i.index)).collect::<Vec<_>>()); } Err(e) => println!("resolve error: {e}") }
}

fn c03_foreign() {
    let a = addr(ADDR_A);
    let mut b = a.clone(); let n = b.len(); b[n-1] ^= 0x55; b[n-2] ^= 0x33;   // another (syntactically valid) address
    let src = "party S; tx t() { input source { from: S, ref: 0x0909090909090909090909090909090909090909090909090909090909090909#0, } output { to: S, amount: source - fees, } }";
    let tx = lower(src, "t");
    let store = Store(vec![utxo(9, 0, &b, 7_000_000), utxo(1, 0, &a, 5_000_000)]);
    let args: BTreeMap<String, ArgValue> = BTreeMap::from([("s".to_string(), ArgValue::Address(a.clone()))]);
    let mut c = crate::c14::cm_compiler();
    let r = pollster::block_on(tx3_resolver::resolve_tx(AnyTir::V1Beta0(tx), &args, &mut c, &store, 10));
    match r { Ok(x) => { let t = pallas::ledger::traverse::MultiEraTx::decode(&x.payload).unwrap(); let bd = &t.as_conway().unwrap().transaction_body; println!("Ok: body inputs = {:?} (the referenced UTxO 0909..#0 sits at another address than `from: S`)", bd.inputs.iter().map(|i| (i.transaction_id.to_string()[..4].to_string(), i.index)).collect::<Vec<_>>()); } Err(e) => println!("Err: {e}") }
}
