use super::*;
use tx3_tir::compile::Compiler as _;
use tx3_tir::model::v1beta0::{Expression as E, *};
use std::sync::Mutex;

static LAST: Mutex<String> = Mutex::new(String::new());

fn num(x: i128) -> E { E::Number(x) }
fn ada(x: i128) -> E { E::Assets(vec![AssetExpr{ policy: E::None, asset_name: E::None, amount: num(x) }]) }
fn tok(p: Vec<u8>, n: &[u8], x: i128) -> E { E::Assets(vec![AssetExpr{ policy: E::Bytes(p), asset_name: E::Bytes(n.to_vec()), amount: num(x) }]) }
fn bi(op: BuiltInOp) -> E { E::EvalBuiltIn(Box::new(op)) }

pub fn base_tx() -> Tx {
    Tx { fees: ada(0), references: vec![], inputs: vec![], outputs: vec![Output{ address: E::Address(addr(ADDR_A)), datum: E::None, amount: ada(2_000_000), optional: false }],
         validity: None, mints: vec![], burns: vec![], adhoc: vec![], collateral: vec![], signers: None, metadata: vec![] }
}

pub fn cm_compiler() -> tx3_cardano::Compiler {
    let mut c = compiler(44, 155381, None);
    c.pparams.cost_models = HashMap::from([(0u8, vec![0i64;166]), (1u8, vec![0i64;175]), (2u8, vec![0i64;251])]);
    c
}

fn compile(tx: Tx) -> String {
    let mut c = cm_compiler();
    match c.compile(&AnyTir::V1Beta0(tx)) { Ok(x) => format!("Ok(fee={}, {} bytes)", x.fee, x.payload.len()), Err(e) => format!("Err({e})") }
}
fn reduce(e: E) -> String {
    match e.reduce() { Ok(x) => format!("Ok({:?})", x).chars().take(100).collect(), Err(e) => format!("Err({e})").chars().take(100).collect() }
}
fn reduce_op(op: CompilerOp, c: &tx3_cardano::Compiler) -> String {
    match c.reduce_op(op) { Ok(x) => format!("Ok({:?})", x).chars().take(100).collect(), Err(e) => format!("Err({e})").chars().take(100).collect() }
}

pub fn run() {
    std::panic::set_hook(Box::new(|info| {
        let loc = info.location().map(|l| format!("{}:{}", l.file(), l.line())).unwrap_or_default();
        *LAST.lock().unwrap() = loc;
    }));
    let policy28 = vec![7u8; 28];
    let cases: Vec<(&str, Box<dyn Fn() -> String + std::panic::UnwindSafe>)> = vec![
        ("i128 add overflow", Box::new(|| reduce(bi(BuiltInOp::Add(num(i128::MAX), num(1)))))),
        ("i128 neg overflow", Box::new(|| reduce(bi(BuiltInOp::Negate(num(i128::MIN)))))),
        ("assets add overflow", Box::new(|| reduce(bi(BuiltInOp::Add(ada(i128::MAX), ada(1)))))),
        ("assets sub overflow", Box::new(|| reduce(bi(BuiltInOp::Sub(ada(i128::MIN + 1), ada(2)))))),
        ("assets neg overflow", Box::new(|| reduce(bi(BuiltInOp::Negate(ada(i128::MIN)))))),
        ("coerce into script todo", Box::new(|| reduce(E::EvalCoerce(Box::new(Coerce::IntoScript(num(1))))))),
        ("asset amount not a number (expect_constant_amount)", Box::new(|| reduce(bi(BuiltInOp::Add(E::Assets(vec![AssetExpr{policy:E::None, asset_name:E::None, amount: E::Bool(true)}]), ada(1)))))),
        ("datum integer beyond 64 bits", Box::new(|| { let mut t = base_tx(); t.outputs[0].datum = num(1i128 << 70); compile(t) })),
        ("output native asset with 3-byte policy", Box::new(|| { let mut t = base_tx(); t.outputs[0].amount = tok(vec![1,2,3], b"A", 5); compile(t) })),
        ("output native asset amount 2^64+1 (PositiveCoin::try_from(amount as u64))", Box::new({ let p = policy28.clone(); move || { let mut t = base_tx(); t.outputs[0].amount = tok(p.clone(), b"A", (1i128<<64)+1); compile(t) } })),
        ("output native asset amount 2^64 (wraps to 0 -> try_from(0).unwrap())", Box::new({ let p = policy28.clone(); move || { let mut t = base_tx(); t.outputs[0].amount = tok(p.clone(), b"A", 1i128<<64); compile(t) } })),
        ("mint zero", Box::new({ let p = policy28.clone(); move || { let mut t = base_tx(); t.mints.push(Mint{ amount: tok(p.clone(), b"A", 0), redeemer: E::None }); compile(t) } })),
        ("burn zero", Box::new({ let p = policy28.clone(); move || { let mut t = base_tx(); t.burns.push(Mint{ amount: tok(p.clone(), b"A", 0), redeemer: E::None }); compile(t) } })),
        ("burn i128::MIN (neg overflow)", Box::new({ let p = policy28.clone(); move || { let mut t = base_tx(); t.burns.push(Mint{ amount: tok(p.clone(), b"A", i128::MIN), redeemer: E::None }); compile(t) } })),
        ("mint with 3-byte policy", Box::new(|| { let mut t = base_tx(); t.mints.push(Mint{ amount: tok(vec![1,2,3], b"A", 1), redeemer: E::None }); compile(t) })),
        ("mint redeemer with short policy (compile_single_mint_redeemer)", Box::new(|| { let mut t = base_tx(); t.mints.push(Mint{ amount: tok(vec![1,2,3], b"A", 1), redeemer: num(1) }); compile(t) })),
        ("two lovelace entries summing past u64 in one output", Box::new(|| { let mut t = base_tx(); t.outputs[0].amount = E::Assets(vec![AssetExpr{policy:E::None,asset_name:E::None,amount:num(u64::MAX as i128)}, AssetExpr{policy:E::None,asset_name:E::None,amount:num(5)}]); compile(t) })),
        ("lovelace + multiasset coin overflow", Box::new({ let p = policy28.clone(); move || { let mut t = base_tx(); t.outputs[0].amount = E::Assets(vec![AssetExpr{policy:E::None,asset_name:E::None,amount:num(u64::MAX as i128)}, AssetExpr{policy:E::Bytes(p.clone()),asset_name:E::Bytes(b"A".to_vec()),amount:num(5)}, AssetExpr{policy:E::None,asset_name:E::None,amount:num(5)}]); compile(t) } })),
        ("signer bytes of length 5", Box::new(|| { let mut t = base_tx(); t.signers = Some(Signers{ signers: vec![E::Bytes(vec![1,2,3,4,5])] }); compile(t) })),
        ("utxo ref as string without #", Box::new(|| { let mut t = base_tx(); t.references.push(E::String("abcd".into())); compile(t) })),
        ("utxo ref as string with bad hex", Box::new(|| { let mut t = base_tx(); t.references.push(E::String("zz#1".into())); compile(t) })),
        ("utxo ref as string with bad index", Box::new(|| { let mut t = base_tx(); t.references.push(E::String("abcd#x".into())); compile(t) })),
        ("publish directive with version but script None-coercible? (script missing handled) version 0 bad cbor", Box::new(|| { let mut t = base_tx(); t.adhoc.push(AdHocDirective{ name: "cardano_publish".into(), data: BTreeMap::from([("to".to_string(), E::Address(addr(ADDR_A))), ("amount".to_string(), ada(1)), ("version".to_string(), num(0)), ("script".to_string(), E::Bytes(vec![0xff]))]) }); compile(t) })),
        ("vote delegation directive without stake", Box::new(|| { let mut t = base_tx(); t.adhoc.push(AdHocDirective{ name: "vote_delegation_certificate".into(), data: BTreeMap::from([("drep".to_string(), E::Bytes(vec![1;28]))]) }); compile(t) })),
        ("vote delegation directive without drep", Box::new(|| { let mut t = base_tx(); t.adhoc.push(AdHocDirective{ name: "vote_delegation_certificate".into(), data: BTreeMap::from([("stake".to_string(), E::Address(addr(ADDR_A)))]) }); compile(t) })),
        ("missing cost model", Box::new(|| { let mut c = compiler(44,155381,None); match c.compile(&AnyTir::V1Beta0(base_tx())) { Ok(_) => "Ok".into(), Err(e) => format!("Err({e})") } })),
        ("spend redeemer whose utxo is not in body inputs (input utxos error dropped by flat_map)", Box::new(|| { let mut t = base_tx(); t.inputs.push(Input{ name: "a".into(), utxos: E::UtxoRefs(vec![]), redeemer: num(1) }); compile(t) })),
        ("constructor index near u64::MAX", Box::new(|| { let mut t = base_tx(); t.outputs[0].datum = E::Struct(StructExpr{ constructor: usize::MAX - 10, fields: vec![] }); compile(t) })),
        ("fee overflow: coefficient u64::MAX", Box::new(|| { let mut c = cm_compiler(); c.pparams.min_fee_coefficient = u64::MAX; match c.compile(&AnyTir::V1Beta0(base_tx())) { Ok(x) => format!("Ok(fee={})", x.fee), Err(e) => format!("Err({e})") } })),
        ("fee overflow: constant u64::MAX", Box::new(|| { let mut c = cm_compiler(); c.pparams.min_fee_constant = u64::MAX; match c.compile(&AnyTir::V1Beta0(base_tx())) { Ok(x) => format!("Ok(fee={})", x.fee), Err(e) => format!("Err({e})") } })),
        ("fee overflow: extra u64::MAX", Box::new(|| { let mut c = cm_compiler(); c.config.extra_fees = Some(u64::MAX); match c.compile(&AnyTir::V1Beta0(base_tx())) { Ok(x) => format!("Ok(fee={})", x.fee), Err(e) => format!("Err({e})") } })),
        ("min_utxo index out of range after a compile", Box::new(|| { let mut c = cm_compiler(); let _ = c.compile(&AnyTir::V1Beta0(base_tx())); reduce_op(CompilerOp::ComputeMinUtxo(num(5)), &c) })),
        ("min_utxo coins_per_byte overflow", Box::new(|| { let mut c = cm_compiler(); c.pparams.coins_per_utxo_byte = u64::MAX; let _ = c.compile(&AnyTir::V1Beta0(base_tx())); reduce_op(CompilerOp::ComputeMinUtxo(num(0)), &c) })),
        ("slot_to_time huge slot", Box::new(|| { let c = cm_compiler(); reduce_op(CompilerOp::ComputeSlotToTime(num(i128::MAX)), &c) })),
        ("slot_to_time mul overflow", Box::new(|| { let c = cm_compiler(); reduce_op(CompilerOp::ComputeSlotToTime(num(i128::MAX/500)), &c) })),
        ("slot_to_time add overflow", Box::new(|| { let mut c = cm_compiler(); c.cursor.timestamp = (i128::MAX as u128) - 10; reduce_op(CompilerOp::ComputeSlotToTime(num(101674141 + 1)), &c) })),
        ("time_to_slot sub overflow (timestamp >= 2^127)", Box::new(|| { let mut c = cm_compiler(); c.cursor.timestamp = u128::MAX; reduce_op(CompilerOp::ComputeTimeToSlot(num(i128::MAX)), &c) })),
        ("time_to_slot add overflow", Box::new(|| { let mut c = cm_compiler(); c.cursor.timestamp = 0; c.cursor.slot = u64::MAX; reduce_op(CompilerOp::ComputeTimeToSlot(num(i128::MAX)), &c) })),
        ("build script address from 3-byte hash", Box::new(|| { let c = cm_compiler(); reduce_op(CompilerOp::BuildScriptAddress(E::Bytes(vec![1,2,3])), &c) })),
        ("output address Hash of 3 bytes (policy_into_address)", Box::new(|| { let mut t = base_tx(); t.outputs[0].address = E::Hash(vec![1,2,3]); compile(t) })),
        ("input with 3-byte txid", Box::new(|| { let mut t = base_tx(); t.inputs.push(Input{ name: "a".into(), utxos: E::UtxoRefs(vec![UtxoRef{ txid: vec![1,2,3], index: 0 }]), redeemer: E::None }); compile(t) })),
        ("reference with 3-byte txid", Box::new(|| { let mut t = base_tx(); t.references.push(E::UtxoRefs(vec![UtxoRef{ txid: vec![1,2,3], index: 0 }])); compile(t) })),
        ("collateral with 3-byte txid", Box::new(|| { let mut t = base_tx(); t.collateral.push(Collateral{ utxos: E::UtxoRefs(vec![UtxoRef{ txid: vec![1,2,3], index: 0 }]) }); compile(t) })),
        ("vote delegation with 3-byte drep", Box::new(|| { let mut t = base_tx(); t.adhoc.push(AdHocDirective{ name: "vote_delegation_certificate".into(), data: BTreeMap::from([("drep".to_string(), E::Bytes(vec![1;3])), ("stake".to_string(), E::Address(addr(ADDR_A)))]) }); compile(t) })),
        ("build script address from 3-byte Hash expr", Box::new(|| { let c = cm_compiler(); reduce_op(CompilerOp::BuildScriptAddress(E::Hash(vec![1,2,3])), &c) })),
    ];
    for (name, f) in cases {
        *LAST.lock().unwrap() = String::new();
        let r = std::panic::catch_unwind(f);
        match r { Ok(m) => println!("ok    {:70} {}", name, m), Err(_) => println!("PANIC {:70} at {}", name, LAST.lock().unwrap().replace("/repo/crates/","")) }
    }
}
