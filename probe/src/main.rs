#![allow(dead_code, unused_imports)]
use std::collections::{BTreeMap, HashMap, HashSet};
use tx3_tir::encoding::AnyTir;
use tx3_tir::model::assets::CanonicalAssets;
use tx3_tir::model::core::{Utxo, UtxoRef, UtxoSet};
use tx3_tir::model::v1beta0 as tir;
use tx3_tir::reduce::{self, Apply, ArgValue};
use tx3_resolver::{UtxoPattern, UtxoStore, Error as RError};

pub const ADDR_A: &str = "addr1qx0rs5qrvx9qkndwu0w88t0xghgy3f53ha76kpx8uf496m9rn2ursdm3r0fgf5pmm4lpufshl8lquk5yykg4pd00hp6quf2hh2";

pub fn addr(b: &str) -> Vec<u8> { pallas::ledger::addresses::Address::from_bech32(b).unwrap().to_vec() }

pub struct Store(pub Vec<Utxo>);
impl UtxoStore for Store {
    async fn narrow_refs(&self, pattern: UtxoPattern<'_>) -> Result<HashSet<UtxoRef>, RError> {
        Ok(self.0.iter().filter(|u| match pattern {
            UtxoPattern::ByAddress(a) => u.address == a,
            UtxoPattern::ByAssetPolicy(p) => u.assets.iter().any(|(c,_)| c.policy()==Some(p)),
            UtxoPattern::ByAsset(p,n) => u.assets.iter().any(|(c,_)| c.policy()==Some(p) && c.name()==Some(n)),
        }).map(|u| u.r#ref.clone()).collect())
    }
    async fn fetch_utxos(&self, refs: HashSet<UtxoRef>) -> Result<UtxoSet, RError> {
        Ok(self.0.iter().filter(|u| refs.contains(&u.r#ref)).cloned().collect())
    }
}

pub fn utxo(tx: u8, idx: u32, address: &[u8], lovelace: i128) -> Utxo {
    Utxo { r#ref: UtxoRef{ txid: vec![tx;32], index: idx }, address: address.to_vec(), assets: CanonicalAssets::from_naked_amount(lovelace), datum: None, script: None }
}

pub fn compiler(a: u64, b: u64, extra: Option<u64>) -> tx3_cardano::Compiler {
    let pparams = tx3_cardano::PParams { network: tx3_cardano::Network::Testnet, min_fee_coefficient: a, min_fee_constant: b, coins_per_utxo_byte: 4310, cost_models: HashMap::new() };
    tx3_cardano::Compiler::new(pparams, tx3_cardano::Config{ extra_fees: extra }, tx3_cardano::ChainPoint{ slot: 101674141, hash: vec![], timestamp: 1757611408 })
}

pub fn lower(src: &str, name: &str) -> tir::Tx {
    let mut ws = tx3_lang::Workspace::from_string(src.to_string());
    ws.lower().expect("lower");
    ws.tir(name).unwrap().clone()
}

mod scen;
mod c14;
mod c02;
mod c20;
mod c05;
mod c08;

fn main() {
    let which = std::env::args().nth(1).unwrap_or_default();
    scen::run(&which);
}
