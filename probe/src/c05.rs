use super::*;
use pallas::ledger::traverse::MultiEraTx;

pub fn run() {
    let src = "party P; tx t() { input source { from: P, min_amount: fees, } output { to: P, amount: source - fees, } }";
    let a = addr(ADDR_A);
    let mut shown = 0;
    for delta in 0..400i128 {
        let amount = (1i128 << 32) + 160_700 + delta;
        let tx = lower(src, "t");
        let store = Store(vec![utxo(1, 0, &a, amount)]);
        let mut c = crate::c14::cm_compiler();
        c.config.extra_fees = Some(0);
        let args: BTreeMap<String, ArgValue> = BTreeMap::from([("p".to_string(), ArgValue::Address(a.clone()))]);
        let r = pollster::block_on(tx3_resolver::resolve_tx(AnyTir::V1Beta0(tx), &args, &mut c, &store, 10));
        if let Ok(x) = r {
            let t = MultiEraTx::decode(&x.payload).unwrap();
            let body_fee = t.as_conway().unwrap().transaction_body.fee;
            let expect = x.payload.len() as u64 * 44 + 155381;
            if body_fee != x.fee || x.fee != expect {
                if shown < 3 { println!("source={} -> Ok: reported fee {} , body fee {} , a*len+b = {}", amount, x.fee, body_fee, expect); }
                shown += 1;
            }
        }
    }
    println!("{} of 400 consecutive source amounts return Ok with body fee != reported fee", shown);
}
