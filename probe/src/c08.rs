use super::*;
use crate::c14::{base_tx, cm_compiler};
use tx3_tir::compile::Compiler as _;
use tx3_tir::model::v1beta0::{Expression as E, *};
use pallas::ledger::traverse::MultiEraTx;

fn num(x: i128) -> E { E::Number(x) }

fn redeemers(tx: Tx) -> String {
    let mut c = cm_compiler();
    match c.compile(&AnyTir::V1Beta0(tx)) {
        Err(e) => format!("Err({e})"),
        Ok(x) => {
            let t = MultiEraTx::decode(&x.payload).unwrap();
            let t = t.as_conway().unwrap();
            let n_in = t.transaction_body.inputs.len();
            let pols = t.transaction_body.mint.as_ref().map(|m| m.len()).unwrap_or(0);
            let wd = t.transaction_body.withdrawals.as_ref().map(|m| m.len()).unwrap_or(0);
            let r = match &t.transaction_witness_set.redeemer { None => "none".to_string(), Some(r) => match &**r { pallas::ledger::primitives::conway::Redeemers::Map(m) => format!("{:?}", m.keys().map(|k| (format!("{:?}", k.tag), k.index)).collect::<Vec<_>>()), _ => "list".into() } };
            format!("inputs={} minted policies={} withdrawals={} redeemers={}", n_in, pols, wd, r)
        }
    }
}

pub fn run() {
    let a = addr(ADDR_A);
    // one script input block bound to two UTxOs, with a redeemer
    let mut t = base_tx();
    t.inputs.push(Input { name: "s".into(), utxos: E::UtxoRefs(vec![UtxoRef { txid: vec![1; 32], index: 0 }, UtxoRef { txid: vec![2; 32], index: 0 }]), redeemer: num(7) });
    println!("multi-UTxO input with redeemer: {}", redeemers(t));
    // one mint block with two policies and a redeemer
    let mut t = base_tx();
    t.mints.push(Mint { amount: E::Assets(vec![
        AssetExpr { policy: E::Bytes(vec![1; 28]), asset_name: E::Bytes(b"A".to_vec()), amount: num(1) },
        AssetExpr { policy: E::Bytes(vec![2; 28]), asset_name: E::Bytes(b"B".to_vec()), amount: num(1) }]), redeemer: num(7) });
    println!("mint block with two policies and a redeemer: {}", redeemers(t));
    // withdrawal with redeemer, as the lowering emits it
    let tx = lower("party P; tx t() { cardano::withdrawal { from: P, amount: 5, redeemer: (), } output { to: P, amount: Ada(2000000), } }", "t");
    let args: BTreeMap<String, ArgValue> = BTreeMap::from([("p".to_string(), ArgValue::Address(a.clone()))]);
    let tx = tx.apply_args(&args).unwrap().apply_fees(0).unwrap().reduce().unwrap();
    println!("withdrawal block with `redeemer: ()`: {}", redeemers(tx));
}

pub fn run_c09() {
    use pallas::ledger::primitives::conway::TransactionOutput;
    for (name, d) in [("2^70", E::Number(1i128 << 70)), ("-(2^70)", E::Number(-(1i128 << 70))), ("i128::MIN", E::Number(i128::MIN)), ("u64::MAX", E::Number(u64::MAX as i128)), ("case 7 of a variant", E::Struct(StructExpr { constructor: 7, fields: vec![] })), ("case 127", E::Struct(StructExpr { constructor: 127, fields: vec![] })), ("case 128", E::Struct(StructExpr { constructor: 128, fields: vec![num(1)] }))] {
        let mut t = base_tx();
        t.outputs[0].datum = d;
        let mut c = cm_compiler();
        let x = c.compile(&AnyTir::V1Beta0(t)).unwrap();
        let tx = MultiEraTx::decode(&x.payload).unwrap();
        let tx = tx.as_conway().unwrap();
        if let TransactionOutput::PostAlonzo(o) = &tx.transaction_body.outputs[0] {
            let raw = pallas::codec::minicbor::to_vec(o.datum_option.as_ref().unwrap()).unwrap();
            println!("{:22} -> datum option cbor {}", name, hex::encode(raw));
        }
    }
}

pub fn run_c01() {
    // a reference / input / collateral whose expression cannot be coerced into UTxO refs
    for which in ["reference", "input", "collateral"] {
        let mut t = base_tx();
        match which { "reference" => t.references.push(E::Number(5)), "input" => t.inputs.push(Input { name: "a".into(), utxos: E::Bool(true), redeemer: E::None }), _ => t.collateral.push(Collateral { utxos: E::Bytes(vec![1, 2]) }) }
        let mut c = cm_compiler();
        match c.compile(&AnyTir::V1Beta0(t)) {
            Err(e) => println!("{which} with an uncoercible expression: Err({e})"),
            Ok(x) => { let tx = MultiEraTx::decode(&x.payload).unwrap(); let b = &tx.as_conway().unwrap().transaction_body;
                println!("{which} with an uncoercible expression: Ok: inputs={} reference_inputs={:?} collateral={:?}", b.inputs.len(), b.reference_inputs.as_ref().map(|x| x.len()), b.collateral.as_ref().map(|x| x.len())); }
        }
    }
    // language level: a reference block whose `ref` is an integer
    let tx = lower("party P; tx t() { reference r { ref: 5, } output { to: P, amount: Ada(2000000), } }", "t");
    let a = addr(ADDR_A);
    let args: BTreeMap<String, ArgValue> = BTreeMap::from([("p".to_string(), ArgValue::Address(a.clone()))]);
    let tx = tx.apply_args(&args).unwrap().apply_fees(0).unwrap().reduce().unwrap();
    let mut c = cm_compiler();
    match c.compile(&AnyTir::V1Beta0(tx)) {
        Err(e) => println!("language level: Err({e})"),
        Ok(x) => { let tx = MultiEraTx::decode(&x.payload).unwrap(); let b = &tx.as_conway().unwrap().transaction_body; println!("language level `reference r {{ ref: 5, }}`: Ok, reference_inputs={:?}", b.reference_inputs.as_ref().map(|x| x.len())); }
    }
}


pub fn run_c02_withdrawals() {
    // two withdrawal blocks from the same reward account: 5 and 7 lovelace
    let a = addr(ADDR_A);
    let tx = lower("party P; tx t() { cardano::withdrawal { from: P, amount: 5, } cardano::withdrawal { from: P, amount: 7, } output { to: P, amount: Ada(2000000), } }", "t");
    let args: BTreeMap<String, ArgValue> = BTreeMap::from([("p".to_string(), ArgValue::Address(a.clone()))]);
    let tx = tx.apply_args(&args).unwrap().apply_fees(0).unwrap().reduce().unwrap();
    let mut c = cm_compiler();
    match c.compile(&AnyTir::V1Beta0(tx)) {
        Err(e) => println!("two withdrawals (5, 7) from one account: Err({e})"),
        Ok(x) => { let t = MultiEraTx::decode(&x.payload).unwrap(); let b = &t.as_conway().unwrap().transaction_body;
            println!("two withdrawals (5, 7) from one account: Ok, body withdrawals = {:?}", b.withdrawals.as_ref().map(|m| m.iter().map(|(_, v)| *v).collect::<Vec<_>>())); }
    }
}
