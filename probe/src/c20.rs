use super::*;
use crate::c14::{base_tx, cm_compiler};
use tx3_tir::compile::Compiler as _;
use tx3_tir::model::v1beta0::{Expression as E, *};

pub fn run() {
    // (1) hash order: the same multi-UTxO input, held in two HashSets, compiled by one compiler
    let a = addr(ADDR_A);
    let mk = || -> HashSet<Utxo> { (0..8u8).map(|i| utxo(i + 1, 0, &a, 5_000_000)).collect() };
    let mut distinct = std::collections::BTreeSet::new();
    for _ in 0..6 {
        let mut t = base_tx();
        t.inputs.push(Input { name: "a".into(), utxos: E::UtxoSet(mk()), redeemer: E::None });
        let mut c = cm_compiler();
        let x = c.compile(&AnyTir::V1Beta0(t)).unwrap();
        distinct.insert(hex::encode(&x.hash));
    }
    println!("same constant tx with an 8-UTxO input compiled 6 times: {} distinct tx hashes", distinct.len());

    // (2) stale body: resolve min_utxo example on a fresh compiler and on one that compiled a one-output tx before
    let src = "party P; tx t() { input source { from: P, min_amount: Ada(5000000), } output a { to: P, amount: Ada(1000000), } output b { to: P, amount: min_utxo(b) + Ada(1), } output c { to: P, amount: source - Ada(1000001) - min_utxo(b) - fees, } }";
    let tx = lower(src, "t");
    let store = Store(vec![utxo(1, 0, &a, 50_000_000)]);
    let args: BTreeMap<String, ArgValue> = BTreeMap::from([("p".to_string(), ArgValue::Address(a.clone()))]);
    let mut fresh = cm_compiler();
    let r1 = pollster::block_on(tx3_resolver::resolve_tx(AnyTir::V1Beta0(tx.clone()), &args, &mut fresh, &store, 10));
    println!("fresh compiler: {:?}", r1.as_ref().map(|x| (x.fee, hex::encode(&x.hash))).map_err(|e| e.to_string()));
    let mut used = cm_compiler();
    let _ = used.compile(&AnyTir::V1Beta0(base_tx())).unwrap();
    let r2 = std::panic::catch_unwind(std::panic::AssertUnwindSafe(|| pollster::block_on(tx3_resolver::resolve_tx(AnyTir::V1Beta0(tx.clone()), &args, &mut used, &store, 10))));
    match r2 { Ok(r) => println!("compiler that compiled a one-output tx before: {:?}", r.as_ref().map(|x| (x.fee, hex::encode(&x.hash))).map_err(|e| e.to_string())), Err(_) => println!("compiler that compiled a one-output tx before: PANIC") }
    // a history with a larger body: 3 outputs with big datums
    let mut used2 = cm_compiler();
    let mut big = base_tx();
    for _ in 0..2 { big.outputs.push(big.outputs[0].clone()); }
    for o in big.outputs.iter_mut() { o.datum = E::Bytes(vec![7u8; 60]); }
    let _ = used2.compile(&AnyTir::V1Beta0(big)).unwrap();
    let r3 = pollster::block_on(tx3_resolver::resolve_tx(AnyTir::V1Beta0(tx), &args, &mut used2, &store, 10));
    println!("compiler that compiled a 3-output tx with datums before: {:?}", r3.as_ref().map(|x| (x.fee, hex::encode(&x.hash))).map_err(|e| e.to_string()));
}
