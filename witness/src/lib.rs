//! E12 -- compile-fail witnesses for the "who may construct / mutate" premises of I-NORMAL (C15) and S-IGNORE (C04).
//! Each witness has a compiling twin that differs only in the offending line, so that a witness whose path is merely
//! wrong cannot pass by accident.  Run with `cargo +nightly test --doc` (the error codes are checked on nightly only).

/// The asset map of `CanonicalAssets` is a private tuple field: no tuple-struct constructor from outside the crate.
/// ```compile_fail,E0603
/// use std::collections::HashMap;
/// let m: HashMap<tx3_tir::model::assets::AssetClass, i128> = HashMap::new();
/// let _v = tx3_tir::model::assets::CanonicalAssets(m);
/// ```
/// Twin (compiles): the public constructor.
/// ```
/// let _v = tx3_tir::model::assets::CanonicalAssets::from_naked_amount(5);
/// ```
pub struct MapIsPrivate;

/// The field cannot be read or written by position either.
/// ```compile_fail,E0616
/// let v = tx3_tir::model::assets::CanonicalAssets::from_naked_amount(5);
/// let _n = v.0.len();
/// ```
/// Twin (compiles): read access goes through Deref.
/// ```
/// let v = tx3_tir::model::assets::CanonicalAssets::from_naked_amount(5);
/// let _n = v.len();
/// ```
pub struct FieldIsPrivate;

/// `Deref<Target = HashMap<..>>` without `DerefMut`: the map cannot be mutated through the wrapper.
/// ```compile_fail,E0596
/// let mut v = tx3_tir::model::assets::CanonicalAssets::from_naked_amount(5);
/// v.insert(tx3_tir::model::assets::AssetClass::Naked, 0);
/// ```
/// Twin (compiles): the same lookup without mutation.
/// ```
/// let v = tx3_tir::model::assets::CanonicalAssets::from_naked_amount(5);
/// let _x = v.get(&tx3_tir::model::assets::AssetClass::Naked);
/// ```
pub struct NoDerefMut;

/// The selector module (and with it `InputSelector` and its `ignore` set) is private to tx3-resolver::inputs: nobody outside
/// can clear or edit the set of already-taken UTxOs.
/// ```compile_fail,E0603
/// use tx3_resolver::inputs::select::InputSelector;
/// ```
/// Twin (compiles): the public surface of the module.
/// ```
/// use tx3_resolver::inputs::SearchSpace;
/// ```
pub struct SelectorIsPrivate;
