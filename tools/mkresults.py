#!/usr/bin/env python3
"""Regenerate the "All seeds" table at the end of seeded/RESULTS.md from the seeded/*/meta.json files."""
import glob
import json
import os

V = os.path.dirname(os.path.dirname(os.path.abspath(__file__)))
MARK = "## All seeds (generated from the meta.json files)"


def cell(x):
    return str(x or "").replace("|", "/").replace("\n", " ").strip()


def main():
    p = os.path.join(V, "seeded", "RESULTS.md")
    s = open(p).read()
    head = s.split(MARK)[0]
    rows = []
    for m in sorted(glob.glob(os.path.join(V, "seeded", "*", "meta.json"))):
        d = json.load(open(m))
        rows.append("| %s | %s | %s | %s | %s | %s |" % (os.path.basename(os.path.dirname(m)), d["property"], cell(d.get("needs")), cell(d.get("first_run")),
                                                    cell(d.get("strengthened")), cell(", ".join(d.get("caught_by", [])))))
    out = head + MARK + "\n\n| seed | property | what it needs to manifest | first run | strengthened | now reported by |\n|---|---|---|---|---|---|\n" + "\n".join(rows) + "\n"
    open(p, "w").write(out)
    print(len(rows), "seeds")


if __name__ == "__main__":
    main()
