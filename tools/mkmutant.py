#!/usr/bin/env python3
"""mkmutant.py <name> <file> <old> <new> [<file> <old> <new> ...]: build mutants/<name>.diff from exact string replacements"""
import os, subprocess, sys, tempfile, shutil
name = sys.argv[1]
trip = sys.argv[2:]
base = tempfile.mkdtemp(prefix="tx3mk-")
wt = os.path.join(base, "wt")
subprocess.run(["git", "-C", "/repo", "worktree", "add", "--detach", "-q", wt, "HEAD"], check=True)
try:
    for i in range(0, len(trip), 3):
        f, old, new = trip[i:i+3]
        p = os.path.join(wt, f)
        s = open(p).read()
        if s.count(old) != 1:
            print("ERROR: %r occurs %d times in %s" % (old, s.count(old), f)); sys.exit(1)
        open(p, "w").write(s.replace(old, new))
    d = subprocess.run(["git", "-C", wt, "diff"], capture_output=True, text=True).stdout
    open("/verif/mutants/%s.diff" % name, "w").write(d)
    print("wrote mutants/%s.diff (%d lines)" % (name, d.count("\n")))
finally:
    subprocess.run(["git", "-C", "/repo", "worktree", "remove", "--force", wt])
    shutil.rmtree(base, ignore_errors=True)
