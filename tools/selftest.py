#!/usr/bin/env python3
"""Both-ways self test of the checkers.

For every entry of mutants/index.json: make a scratch git worktree of /repo OUTSIDE /repo and /verif,
apply the patch, run the named check against it (VERIF_REPO), require exit 1 and a finding whose rule
and key contain the expected strings (or, for `expect: "silent"` controls, require exit 0), then remove
the worktree.  Nothing is ever applied to /repo itself.
"""
import json
import os
import shutil
import subprocess
import sys
import tempfile

VERIF = os.path.dirname(os.path.dirname(os.path.abspath(__file__)))
REPO = "/repo"


def run_one(m, keep=False):
    base = tempfile.mkdtemp(prefix="tx3mut-", dir=os.environ.get("TMPDIR", "/tmp"))
    wt = os.path.join(base, "wt")
    evd = os.path.join(base, "evidence")
    os.makedirs(evd)
    try:
        for attempt in range(6):
            # concurrent `git worktree add` calls contend for a lock in /repo/.git: retry
            r0 = subprocess.run(["git", "-C", REPO, "worktree", "add", "--detach", "-q", wt, "HEAD"], capture_output=True, text=True)
            if r0.returncode == 0:
                break
            import time as _t
            _t.sleep(1.5 * (attempt + 1))
        else:
            raise RuntimeError("git worktree add failed: " + r0.stderr[-300:])
        patch = os.path.join(VERIF, m["patch"])
        r = subprocess.run(["git", "-C", wt, "apply", patch], capture_output=True, text=True)
        if r.returncode != 0:
            return False, "patch does not apply: " + r.stderr.strip()
        env = dict(os.environ, VERIF_REPO=wt, VERIF_EVIDENCE_DIR=evd)
        results = []
        for prop in m["properties"]:
            c = subprocess.run([os.path.join(VERIF, "check"), prop, "--tier", "quick"], cwd=VERIF, env=env, capture_output=True, text=True)
            results.append((prop, c.returncode, c.stdout))
        okall = True
        msgs = []
        for prop, rc, out in results:
            if m.get("expect") == "silent":
                if rc != 0:
                    okall = False
                    msgs.append("%s: expected silence, got exit %d: %s" % (prop, rc, out[-400:]))
                continue
            if rc != 1:
                okall = False
                msgs.append("%s: expected exit 1, got %d: %s" % (prop, rc, out[-400:]))
                continue
            hit = False
            for fn in os.listdir(evd):
                if fn.startswith(prop + ".violation-"):
                    v = json.load(open(os.path.join(evd, fn)))
                    if v["rule"] == m["rule"] and m.get("key_contains", "") in v["key"]:
                        hit = True
            if not hit:
                okall = False
                msgs.append("%s: violation reported but not rule %s / key ~ %s: %s" % (prop, m["rule"], m.get("key_contains", ""), out[-600:]))
        return okall, "; ".join(msgs)
    finally:
        subprocess.run(["git", "-C", REPO, "worktree", "remove", "--force", wt], capture_output=True)
        subprocess.run(["git", "-C", REPO, "worktree", "prune"], capture_output=True)
        shutil.rmtree(base, ignore_errors=True)


def main():
    idx = json.load(open(os.path.join(VERIF, "mutants", "index.json")))
    # behaviour-preserving refactorings (benign/<id>/patch.diff): every check must stay silent
    bdir = os.path.join(VERIF, "benign")
    if os.path.isdir(bdir):
        for b in sorted(os.listdir(bdir)):
            if os.path.exists(os.path.join(bdir, b, "patch.diff")):
                idx.append({"patch": "benign/%s/patch.diff" % b, "properties": ["C%02d" % i for i in range(1, 21)], "expect": "silent"})
    args = sys.argv[1:]
    jobs = 1
    if "-j" in args:
        i = args.index("-j")
        jobs = int(args[i + 1])
        args = args[:i] + args[i + 2:]
    only = args
    todo = [m for m in idx if not only or any(o in m["patch"] or o in m["properties"] for o in only)]
    bad = 0
    from concurrent.futures import ThreadPoolExecutor
    with ThreadPoolExecutor(max_workers=jobs) as ex:
        for m, (good, msg) in zip(todo, ex.map(run_one, todo)):
            print("%s %s %s %s" % ("PASS" if good else "FAIL", m["patch"], ",".join(m["properties"]) if len(m["properties"]) < 20 else "ALL", msg), flush=True)
            if not good:
                bad += 1
    print("%d entries, %d failed" % (len(todo), bad))
    return 1 if bad else 0


if __name__ == "__main__":
    sys.exit(main())
