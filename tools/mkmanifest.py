#!/usr/bin/env python3
"""Regenerate /verif/MANIFEST.json from the META of each property module that exists (claimed) and
the not-applicable reasons below for the rest."""
import importlib
import json
import os
import sys

VERIF = os.path.dirname(os.path.dirname(os.path.abspath(__file__)))
sys.path.insert(0, VERIF)

CLAIMS = json.load(open(os.path.join(VERIF, "tables", "claims.json")))

props = [json.loads(l) for l in open(os.path.join(VERIF, "properties.jsonl"))]
checks = []
na = []
for p in props:
    pid = p["id"]
    c = CLAIMS.get(pid)
    if c and c.get("claimed"):
        checks.append({
            "property_id": pid,
            "quick_cmd": "./check %s --tier quick" % pid,
            "thorough_cmd": "./check %s --tier thorough" % pid,
            "evidence_file": "/verif/evidence/%s.json" % pid,
            "replay_cmd_template": "cat {path}; ./check %s --tier quick" % pid,
            "engine": c["engine"],
            "level_claimed": {"category": "other", "text": c["level_text"], "design_ref": c.get("design_ref", "DESIGN.md section 4 " + pid)},
            "level_note": c["level_note"],
            "technique": c["technique"],
        })
    else:
        na.append({"property_id": pid, "reason": (c or {}).get("reason", "check under construction in this round; not claimed until its engine is committed")})
m = {
    "version": 1,
    "setup_cmd": "./setup.sh",
    "hooks": {
        "guard": "tx3_lang_tx3_verif",
        "enable": "none needed: the analyses read /repo's working tree as it is (no source hooks)",
        "baseline_off_cmd": "cd /repo && cargo test --workspace --no-fail-fast --offline",
        "source_commits": [],
        "add_only": True,
    },
    "engines": [
        {"name": "mirfacts", "path": "tools/mirfacts", "serves_properties": [c["property_id"] for c in checks],
         "kind_free_text": "rustc_private driver (RUSTC_WORKSPACE_WRAPPER under cargo +nightly check): structured MIR, ADT and impl tables as JSON facts"},
        {"name": "gramfacts", "path": "tools/gramfacts", "serves_properties": ["C01", "C12"],
         "kind_free_text": "pest_meta front end: tx3.pest rule AST as JSON"},
        {"name": "rules", "path": "rules", "serves_properties": [c["property_id"] for c in checks],
         "kind_free_text": "python rule engine over the facts: traversal completeness, panic-site inventory with discharge, grammar/parser conformance, lossy-cast and unchecked-arithmetic inventory, string-table agreement, hash-order flow, serde wire tables, CFG/typestate rules, provenance rules"},
    ],
    "checks": checks,
    "notes": "Static analysis only (see DESIGN.md). Every check re-extracts facts from /repo's working tree (cached by source digest). exit 2 + BROKEN-CHECK means the machinery failed (missing anchor / facts below floor), not a verdict.",
    "not_applicable": na,
}
json.dump(m, open(os.path.join(VERIF, "MANIFEST.json"), "w"), indent=1)
print("claimed:", [c["property_id"] for c in checks])
