#!/usr/bin/env python3
"""trymut.py [--checks C01,C02] [--patch file.diff] [<file> <old> <new> ...]

Ad-hoc probe of the checkers: scratch worktree of /repo under /tmp, exact string replacements (or a patch) applied, the named
checks (default: all) run against it, violations printed, worktree removed.  Nothing is applied to /repo.  Does NOT run the
test suite (use seedcheck.py for that)."""
import json
import os
import shutil
import subprocess
import sys
import tempfile

VERIF = os.path.dirname(os.path.dirname(os.path.abspath(__file__)))


def main():
    args = sys.argv[1:]
    checks = ["C%02d" % i for i in range(1, 21)]
    patch = None
    if args and args[0] == "--checks":
        checks = args[1].split(",")
        args = args[2:]
    if args and args[0] == "--patch":
        patch = os.path.abspath(args[1])
        args = args[2:]
    base = tempfile.mkdtemp(prefix="tx3try-", dir="/tmp")
    wt = os.path.join(base, "wt")
    evd = os.path.join(base, "evidence")
    os.makedirs(evd)
    try:
        subprocess.run(["git", "-C", "/repo", "worktree", "add", "--detach", "-q", wt, "HEAD"], check=True)
        if patch:
            r = subprocess.run(["git", "-C", wt, "apply", patch], capture_output=True, text=True)
            if r.returncode:
                print("patch does not apply:", r.stderr)
                return 2
        for i in range(0, len(args), 3):
            f, old, new = args[i:i + 3]
            p = os.path.join(wt, f)
            s = open(p).read()
            if s.count(old) != 1:
                print("ERROR: %r occurs %d times in %s" % (old, s.count(old), f))
                return 2
            open(p, "w").write(s.replace(old, new))
        env = dict(os.environ, VERIF_REPO=wt, VERIF_EVIDENCE_DIR=evd)
        caught = []
        for c in checks:
            r = subprocess.run([os.path.join(VERIF, "check"), c, "--tier", "quick"], cwd=VERIF, env=env, capture_output=True, text=True)
            if r.returncode == 2:
                print("%s BROKEN: %s" % (c, (r.stdout + r.stderr)[-1500:]))
            for fn in sorted(os.listdir(evd)):
                if fn.startswith(c + ".violation-"):
                    v = json.load(open(os.path.join(evd, fn)))
                    print("%s VIOLATION %s | %s\n      %s\n      %s" % (c, v["rule"], v["key"], v["where"], (v.get("detail") or "")[:300]))
                    os.remove(os.path.join(evd, fn))
            if r.returncode == 1:
                caught.append(c)
        print("caught by:", caught)
    finally:
        subprocess.run(["git", "-C", "/repo", "worktree", "remove", "--force", wt], capture_output=True)
        subprocess.run(["git", "-C", "/repo", "worktree", "prune"], capture_output=True)
        shutil.rmtree(base, ignore_errors=True)
    return 0


if __name__ == "__main__":
    sys.exit(main())
