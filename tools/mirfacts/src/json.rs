// minimal JSON writer (no dependencies)
pub enum J {
    Null,
    B(bool),
    I(i128),
    S(String),
    A(Vec<J>),
    O(Vec<(String, J)>),
}

impl J {
    pub fn s(x: &str) -> J {
        J::S(x.to_string())
    }
    pub fn arr(v: Vec<J>) -> J {
        J::A(v)
    }
    pub fn obj(v: Vec<(&str, J)>) -> J {
        J::O(v.into_iter().map(|(k, v)| (k.to_string(), v)).collect())
    }
    pub fn write(&self, out: &mut String) {
        match self {
            J::Null => out.push_str("null"),
            J::B(b) => out.push_str(if *b { "true" } else { "false" }),
            J::I(i) => out.push_str(&i.to_string()),
            J::S(s) => esc(s, out),
            J::A(v) => {
                out.push('[');
                for (i, x) in v.iter().enumerate() {
                    if i > 0 {
                        out.push(',');
                    }
                    x.write(out);
                }
                out.push(']');
            }
            J::O(v) => {
                out.push('{');
                for (i, (k, x)) in v.iter().enumerate() {
                    if i > 0 {
                        out.push(',');
                    }
                    esc(k, out);
                    out.push(':');
                    x.write(out);
                }
                out.push('}');
            }
        }
    }
}

fn esc(s: &str, out: &mut String) {
    out.push('"');
    for c in s.chars() {
        match c {
            '"' => out.push_str("\\\""),
            '\\' => out.push_str("\\\\"),
            '\n' => out.push_str("\\n"),
            '\r' => out.push_str("\\r"),
            '\t' => out.push_str("\\t"),
            c if (c as u32) < 0x20 => out.push_str(&format!("\\u{:04x}", c as u32)),
            c => out.push(c),
        }
    }
    out.push('"');
}
