// mirfacts: a rustc_private driver that dumps a structured form of the type-checked program
// (MIR at opt-level 0, ADT definitions, trait impl tables) as JSON lines.
//
// Used as RUSTC_WORKSPACE_WRAPPER under `cargo +nightly check`; argv[1] is the real rustc path
// (dropped).  One output file per process: $MIRFACTS_OUT/<crate>-<pid>.jsonl, written once.
//
// Nothing here decides a property: the rule engine (python, /verif/rules) reads these facts.
#![feature(rustc_private)]
#![allow(clippy::all)]

extern crate rustc_abi;
extern crate rustc_driver;
extern crate rustc_hir;
extern crate rustc_interface;
extern crate rustc_middle;
extern crate rustc_session;
extern crate rustc_span;

use rustc_driver::Compilation;
use rustc_hir::def::DefKind;
use rustc_hir::def_id::{DefId, LocalDefId, LOCAL_CRATE};
use rustc_middle::mir::{
    self, AggregateKind, BasicBlockData, Body, Const, ConstValue, Operand, Place, PlaceElem,
    Rvalue, StatementKind, TerminatorKind,
};
use rustc_middle::ty::print::{with_crate_prefix, with_no_trimmed_paths};
use rustc_middle::ty::{self, Instance, Ty, TyCtxt, TypingEnv};
use rustc_span::Span;
use std::fmt::Write as _;

mod json;
use json::J;

struct Cb {
    pre: Vec<String>,
}

fn p<T: std::fmt::Display>(x: T) -> String {
    with_crate_prefix!(with_no_trimmed_paths!(format!("{}", x)))
}

fn path(tcx: TyCtxt<'_>, did: DefId) -> String {
    with_crate_prefix!(with_no_trimmed_paths!(tcx.def_path_str(did)))
}

fn path_args<'tcx>(tcx: TyCtxt<'tcx>, did: DefId, args: ty::GenericArgsRef<'tcx>) -> String {
    with_crate_prefix!(with_no_trimmed_paths!(tcx.def_path_str_with_args(did, args)))
}

fn span_info(tcx: TyCtxt<'_>, sp: Span) -> (String, usize, bool) {
    let exp = sp.from_expansion();
    // for expanded spans use the outermost call site for the location
    let sp2 = if exp { sp.source_callsite() } else { sp };
    let sm = tcx.sess.source_map();
    let lo = sm.lookup_char_pos(sp2.lo());
    let file = match &lo.file.name {
        rustc_span::FileName::Real(r) => match r.local_path() {
            Some(p) => p.to_string_lossy().to_string(),
            None => format!("{:?}", lo.file.name),
        },
        other => format!("{:?}", other),
    };
    (file, lo.line, exp)
}

/// expansion kind of a span: "" (none), "derive:<name>", "macro:<name>", "desugar:<kind>"
fn exp_kind(sp: Span) -> String {
    if !sp.from_expansion() {
        return String::new();
    }
    let mut out = Vec::new();
    let mut s = sp;
    let mut n = 0;
    while s.from_expansion() && n < 8 {
        let d = s.ctxt().outer_expn_data();
        let k = match d.kind {
            rustc_span::ExpnKind::Root => "root".to_string(),
            rustc_span::ExpnKind::Macro(mk, name) => match mk {
                rustc_span::MacroKind::Derive => format!("derive:{}", name),
                rustc_span::MacroKind::Attr => format!("attr:{}", name),
                rustc_span::MacroKind::Bang => format!("macro:{}", name),
            },
            rustc_span::ExpnKind::AstPass(_) => "astpass".to_string(),
            rustc_span::ExpnKind::Desugaring(k) => format!("desugar:{:?}", k),
        };
        out.push(k);
        s = d.call_site;
        n += 1;
    }
    out.join("<")
}

fn resolve_fn<'tcx>(tcx: TyCtxt<'tcx>, tenv: TypingEnv<'tcx>, d: DefId, a: ty::GenericArgsRef<'tcx>) -> Option<String> {
    match Instance::try_resolve(tcx, tenv, d, a) {
        Ok(Some(inst)) => Some(path(tcx, inst.def_id())),
        _ => None,
    }
}

fn collect_fnrefs<'tcx>(tcx: TyCtxt<'tcx>, tenv: TypingEnv<'tcx>, t: Ty<'tcx>, out: &mut Vec<String>, depth: usize) {
    if depth > 6 {
        return;
    }
    match t.kind() {
        ty::FnDef(d, a) => {
            out.push(path(tcx, *d));
            if let Some(r) = resolve_fn(tcx, tenv, *d, a) {
                out.push(r);
            }
            for g in a.iter() {
                if let Some(t2) = g.as_type() {
                    collect_fnrefs(tcx, tenv, t2, out, depth + 1);
                }
            }
        }
        ty::Closure(d, _) | ty::Coroutine(d, _) | ty::CoroutineClosure(d, _) => {
            out.push(path(tcx, *d));
        }
        ty::Adt(_, a) => {
            for g in a.iter() {
                if let Some(t2) = g.as_type() {
                    collect_fnrefs(tcx, tenv, t2, out, depth + 1);
                }
            }
        }
        ty::Ref(_, t2, _) | ty::RawPtr(t2, _) | ty::Slice(t2) | ty::Array(t2, _) => {
            collect_fnrefs(tcx, tenv, *t2, out, depth + 1)
        }
        ty::Tuple(ts) => {
            for t2 in ts.iter() {
                collect_fnrefs(tcx, tenv, t2, out, depth + 1);
            }
        }
        _ => {}
    }
}

struct Fx<'a, 'tcx> {
    tcx: TyCtxt<'tcx>,
    body: &'a Body<'tcx>,
    did: DefId,
    tenv: TypingEnv<'tcx>,
}

impl<'a, 'tcx> Fx<'a, 'tcx> {
    fn place(&self, pl: &Place<'tcx>) -> J {
        let tcx = self.tcx;
        let mut pty = mir::PlaceTy::from_ty(self.body.local_decls[pl.local].ty);
        let mut projs = Vec::new();
        for elem in pl.projection.iter() {
            let j = match elem {
                PlaceElem::Deref => J::arr(vec![J::s("d")]),
                PlaceElem::Field(f, fty) => {
                    let mut name = format!("{}", f.index());
                    let mut adt = String::new();
                    let mut var = String::new();
                    match pty.ty.kind() {
                        ty::Adt(def, _) => {
                            adt = path(tcx, def.did());
                            let vidx = pty.variant_index.unwrap_or(rustc_abi::FIRST_VARIANT);
                            if (vidx.as_usize()) < def.variants().len() {
                                let v = def.variant(vidx);
                                var = v.name.to_string();
                                if f.index() < v.fields.len() {
                                    name = v.fields[f].name.to_string();
                                }
                            }
                        }
                        ty::Closure(d, _) | ty::Coroutine(d, _) => {
                            adt = format!("closure:{}", path(tcx, *d));
                        }
                        ty::Tuple(_) => {
                            adt = "tuple".to_string();
                        }
                        _ => {}
                    }
                    J::arr(vec![J::s("f"), J::S(name), J::S(adt), J::S(var), J::S(p(fty))])
                }
                PlaceElem::Downcast(sym, vidx) => {
                    let name = match sym {
                        Some(s) => s.to_string(),
                        None => match pty.ty.kind() {
                            ty::Adt(def, _) if vidx.as_usize() < def.variants().len() => {
                                def.variant(vidx).name.to_string()
                            }
                            _ => format!("{}", vidx.as_usize()),
                        },
                    };
                    J::arr(vec![J::s("dc"), J::S(name)])
                }
                PlaceElem::Index(l) => J::arr(vec![J::s("i"), J::I(l.as_usize() as i128)]),
                PlaceElem::ConstantIndex { offset, min_length, from_end } => J::arr(vec![
                    J::s("ci"),
                    J::I(offset as i128),
                    J::I(min_length as i128),
                    J::B(from_end),
                ]),
                PlaceElem::Subslice { from, to, from_end } => {
                    J::arr(vec![J::s("sub"), J::I(from as i128), J::I(to as i128), J::B(from_end)])
                }
                PlaceElem::OpaqueCast(_) => J::arr(vec![J::s("oc")]),
                PlaceElem::UnwrapUnsafeBinder(_) => J::arr(vec![J::s("ub")]),
            };
            projs.push(j);
            pty = pty.projection_ty(tcx, elem);
        }
        J::obj(vec![("l", J::I(pl.local.as_usize() as i128)), ("p", J::A(projs))])
    }

    fn constant(&self, c: &mir::ConstOperand<'tcx>) -> J {
        let tcx = self.tcx;
        let t = c.const_.ty();
        let mut fields: Vec<(&str, J)> = vec![("ty", J::S(p(t)))];
        match t.kind() {
            ty::FnDef(d, a) => {
                fields.push(("fn", J::S(path(tcx, *d))));
                if let Some(r) = resolve_fn(tcx, self.tenv, *d, a) {
                    fields.push(("fn_resolved", J::S(r)));
                }
                fields.push(("fnargs", J::S(path_args(tcx, *d, a))));
                let mut refs = Vec::new();
                collect_fnrefs(tcx, self.tenv, t, &mut refs, 0);
                fields.push(("fnrefs", J::A(refs.into_iter().map(J::S).collect())));
            }
            _ => {
                // string slices
                let mut done = false;
                if let Const::Val(v, cty) = c.const_ {
                    if let ty::Ref(_, inner, _) = cty.kind() {
                        if inner.is_str() {
                            if let Some(bytes) = v.try_get_slice_bytes_for_diagnostics(tcx) {
                                fields.push(("str", J::S(String::from_utf8_lossy(bytes).to_string())));
                                done = true;
                            }
                        }
                    }
                    let _ = ConstValue::ZeroSized;
                }
                if !done {
                    if t.is_integral() || t.is_bool() || t.is_char() {
                        if let Some(si) = c.const_.try_eval_scalar_int(tcx, self.tenv) {
                            let size = si.size();
                            let v: i128 = if t.is_signed() {
                                si.to_int(size)
                            } else {
                                let u = si.to_uint(size);
                                if u > i128::MAX as u128 { -1 } else { u as i128 }
                            };
                            fields.push(("int", J::I(v)));
                            done = true;
                        }
                    }
                }
                if !done {
                    let mut s = p(&c.const_);
                    if s.len() > 200 {
                        s.truncate(200);
                    }
                    fields.push(("txt", J::S(s)));
                    match c.const_ {
                        Const::Unevaluated(u, _) => {
                            fields.push(("uneval", J::S(path(tcx, u.def))));
                            if let Some(pr) = u.promoted {
                                fields.push(("promoted", J::I(pr.as_usize() as i128)));
                            }
                        }
                        _ => {}
                    }
                }
            }
        }
        J::obj(fields)
    }

    fn operand(&self, op: &Operand<'tcx>) -> J {
        match op {
            Operand::Copy(pl) => J::obj(vec![("cp", self.place(pl))]),
            Operand::Move(pl) => J::obj(vec![("mv", self.place(pl))]),
            Operand::Constant(c) => J::obj(vec![("c", self.constant(c))]),
            #[allow(unreachable_patterns)]
            _ => J::obj(vec![("other", J::S(format!("{:?}", op)))]),
        }
    }

    fn rvalue(&self, rv: &Rvalue<'tcx>) -> J {
        let tcx = self.tcx;
        match rv {
            Rvalue::Use(op, _) => J::obj(vec![("k", J::s("use")), ("op", self.operand(op))]),
            Rvalue::Repeat(op, _) => J::obj(vec![("k", J::s("repeat")), ("op", self.operand(op))]),
            Rvalue::Ref(_, bk, pl) => J::obj(vec![
                ("k", J::s("ref")),
                ("mut", J::B(matches!(bk, mir::BorrowKind::Mut { .. }))),
                ("pl", self.place(pl)),
            ]),
            Rvalue::RawPtr(_, pl) => J::obj(vec![("k", J::s("rawptr")), ("pl", self.place(pl))]),
            Rvalue::Cast(ck, op, t) => J::obj(vec![
                ("k", J::s("cast")),
                ("ck", J::S(format!("{:?}", ck))),
                ("op", self.operand(op)),
                ("from", J::S(p(op.ty(&self.body.local_decls, tcx)))),
                ("to", J::S(p(t))),
            ]),
            Rvalue::BinaryOp(bop, ops) => J::obj(vec![
                ("k", J::s("binop")),
                ("op", J::S(format!("{:?}", bop))),
                ("a", self.operand(&ops.0)),
                ("b", self.operand(&ops.1)),
                ("ty", J::S(p(ops.0.ty(&self.body.local_decls, tcx)))),
            ]),
            Rvalue::UnaryOp(uop, op) => J::obj(vec![
                ("k", J::s("unop")),
                ("op", J::S(format!("{:?}", uop))),
                ("a", self.operand(op)),
                ("ty", J::S(p(op.ty(&self.body.local_decls, tcx)))),
            ]),
            Rvalue::Discriminant(pl) => {
                let t = pl.ty(&self.body.local_decls, tcx).ty;
                let adt = match t.kind() {
                    ty::Adt(def, _) => path(tcx, def.did()),
                    _ => p(t),
                };
                J::obj(vec![("k", J::s("discr")), ("pl", self.place(pl)), ("adt", J::S(adt))])
            }
            Rvalue::Aggregate(kind, ops) => {
                let mut f: Vec<(&str, J)> = vec![("k", J::s("agg"))];
                match &**kind {
                    AggregateKind::Adt(did, vidx, args, _, active) => {
                        let def = tcx.adt_def(*did);
                        let v = def.variant(*vidx);
                        f.push(("adt", J::S(path(tcx, *did))));
                        f.push(("adt_args", J::S(path_args(tcx, *did, args))));
                        f.push(("variant", J::S(v.name.to_string())));
                        let names: Vec<J> = if let Some(a) = active {
                            vec![J::S(v.fields[*a].name.to_string())]
                        } else {
                            v.fields.iter().map(|fd| J::S(fd.name.to_string())).collect()
                        };
                        f.push(("fields", J::A(names)));
                    }
                    AggregateKind::Tuple => f.push(("tuple", J::B(true))),
                    AggregateKind::Array(t) => f.push(("array", J::S(p(t)))),
                    AggregateKind::Closure(did, _) => f.push(("closure", J::S(path(tcx, *did)))),
                    AggregateKind::Coroutine(did, _) => f.push(("closure", J::S(path(tcx, *did)))),
                    AggregateKind::CoroutineClosure(did, _) => {
                        f.push(("closure", J::S(path(tcx, *did))))
                    }
                    AggregateKind::RawPtr(..) => f.push(("rawptr", J::B(true))),
                }
                f.push(("ops", J::A(ops.iter().map(|o| self.operand(o)).collect())));
                J::obj(f)
            }
            Rvalue::CopyForDeref(pl) => J::obj(vec![
                ("k", J::s("use")),
                ("op", J::obj(vec![("cp", self.place(pl))])),
            ]),
            other => {
                let mut s = format!("{:?}", other);
                if s.len() > 120 {
                    s.truncate(120);
                }
                J::obj(vec![("k", J::s("other")), ("txt", J::S(s))])
            }
        }
    }

    fn sp(&self, sp: Span) -> (J, J) {
        let (_, line, _) = span_info(self.tcx, sp);
        (J::I(line as i128), J::S(exp_kind(sp)))
    }

    fn block(&self, bb: &BasicBlockData<'tcx>) -> J {
        let tcx = self.tcx;
        let mut stmts = Vec::new();
        for st in &bb.statements {
            match &st.kind {
                StatementKind::Assign(b) => {
                    let (pl, rv) = &**b;
                    let (line, exp) = self.sp(st.source_info.span);
                    stmts.push(J::obj(vec![
                        ("lhs", self.place(pl)),
                        ("rv", self.rvalue(rv)),
                        ("line", line),
                        ("exp", exp),
                    ]));
                }
                StatementKind::SetDiscriminant { place, variant_index } => {
                    let (line, exp) = self.sp(st.source_info.span);
                    stmts.push(J::obj(vec![
                        ("lhs", self.place(place)),
                        (
                            "rv",
                            J::obj(vec![
                                ("k", J::s("setdiscr")),
                                ("v", J::I(variant_index.as_usize() as i128)),
                            ]),
                        ),
                        ("line", line),
                        ("exp", exp),
                    ]));
                }
                _ => {}
            }
        }
        let term = match &bb.terminator {
            None => J::obj(vec![("k", J::s("none"))]),
            Some(t) => {
                let (line, exp) = self.sp(t.source_info.span);
                let mut f: Vec<(&str, J)> = Vec::new();
                match &t.kind {
                    TerminatorKind::Goto { target } => {
                        f.push(("k", J::s("goto")));
                        f.push(("t", J::I(target.as_usize() as i128)));
                    }
                    TerminatorKind::SwitchInt { discr, targets } => {
                        f.push(("k", J::s("switch")));
                        f.push(("discr", self.operand(discr)));
                        f.push(("dty", J::S(p(discr.ty(&self.body.local_decls, tcx)))));
                        let mut ts = Vec::new();
                        for (v, b) in targets.iter() {
                            let vv = if v > i128::MAX as u128 { -1 } else { v as i128 };
                            ts.push(J::arr(vec![J::I(vv), J::I(b.as_usize() as i128)]));
                        }
                        f.push(("targets", J::A(ts)));
                        f.push(("otherwise", J::I(targets.otherwise().as_usize() as i128)));
                    }
                    TerminatorKind::Return => f.push(("k", J::s("return"))),
                    TerminatorKind::Unreachable => f.push(("k", J::s("unreachable"))),
                    TerminatorKind::UnwindResume => f.push(("k", J::s("resume"))),
                    TerminatorKind::UnwindTerminate(_) => f.push(("k", J::s("terminate"))),
                    TerminatorKind::Drop { place, target, .. } => {
                        f.push(("k", J::s("drop")));
                        f.push(("pl", self.place(place)));
                        f.push(("t", J::I(target.as_usize() as i128)));
                    }
                    TerminatorKind::Call { func, args, destination, target, .. } => {
                        f.push(("k", J::s("call")));
                        f.push(("dest", self.place(destination)));
                        f.push((
                            "t",
                            match target {
                                Some(b) => J::I(b.as_usize() as i128),
                                None => J::Null,
                            },
                        ));
                        f.push(("args", J::A(args.iter().map(|a| self.operand(&a.node)).collect())));
                        let fty = func.ty(&self.body.local_decls, tcx);
                        match fty.kind() {
                            ty::FnDef(d, a) => {
                                f.push(("callee", J::S(path(tcx, *d))));
                                f.push(("callee_args", J::S(path_args(tcx, *d, a))));
                                let mut refs = Vec::new();
                                for g in a.iter() {
                                    if let Some(t2) = g.as_type() {
                                        collect_fnrefs(tcx, self.tenv, t2, &mut refs, 0);
                                    }
                                }
                                f.push(("fnrefs", J::A(refs.into_iter().map(J::S).collect())));
                                let gargs: Vec<J> = a.iter().map(|g| J::S(p(g))).collect();
                                f.push(("gargs", J::A(gargs)));
                                if let Some(tr) = tcx.trait_of_assoc(*d) {
                                    f.push(("trait", J::S(path(tcx, tr))));
                                    f.push(("method", J::S(tcx.item_name(*d).to_string())));
                                }
                                match Instance::try_resolve(tcx, self.tenv, *d, a) {
                                    Ok(Some(inst)) => {
                                        let rd = inst.def_id();
                                        f.push(("resolved", J::S(path(tcx, rd))));
                                        f.push((
                                            "resolved_kind",
                                            J::S(match inst.def {
                                                ty::InstanceKind::Item(_) => "item".to_string(),
                                                ty::InstanceKind::Virtual(..) => "virtual".to_string(),
                                                ty::InstanceKind::Intrinsic(_) => "intrinsic".to_string(),
                                                ty::InstanceKind::ClosureOnceShim { .. } => "closure_once".to_string(),
                                                ty::InstanceKind::FnPtrShim(..) => "fnptr_shim".to_string(),
                                                ty::InstanceKind::ReifyShim(..) => "reify".to_string(),
                                                ty::InstanceKind::DropGlue(..) => "dropglue".to_string(),
                                                ty::InstanceKind::CloneShim(..) => "cloneshim".to_string(),
                                                _ => "othershim".to_string(),
                                            }),
                                        ));
                                    }
                                    _ => {}
                                }
                            }
                            _ => {
                                f.push(("indirect", self.operand(func)));
                                f.push(("indirect_ty", J::S(p(fty))));
                            }
                        }
                    }
                    TerminatorKind::TailCall { .. } => f.push(("k", J::s("tailcall"))),
                    TerminatorKind::Assert { cond, expected, msg, target, .. } => {
                        f.push(("k", J::s("assert")));
                        f.push(("cond", self.operand(cond)));
                        f.push(("expected", J::B(*expected)));
                        let mk = {
                            let s = format!("{:?}", msg);
                            let s2: String =
                                s.chars().take_while(|c| c.is_alphanumeric() || *c == '_').collect();
                            s2
                        };
                        f.push(("msg", J::S(mk)));
                        f.push(("t", J::I(target.as_usize() as i128)));
                    }
                    TerminatorKind::Yield { resume, value, .. } => {
                        f.push(("k", J::s("yield")));
                        f.push(("t", J::I(resume.as_usize() as i128)));
                        f.push(("value", self.operand(value)));
                    }
                    TerminatorKind::CoroutineDrop => f.push(("k", J::s("codrop"))),
                    TerminatorKind::FalseEdge { real_target, .. } => {
                        f.push(("k", J::s("goto")));
                        f.push(("t", J::I(real_target.as_usize() as i128)));
                    }
                    TerminatorKind::FalseUnwind { real_target, .. } => {
                        f.push(("k", J::s("goto")));
                        f.push(("t", J::I(real_target.as_usize() as i128)));
                    }
                    TerminatorKind::InlineAsm { .. } => f.push(("k", J::s("asm"))),
                }
                f.push(("line", line));
                f.push(("exp", exp));
                J::obj(f)
            }
        };
        J::obj(vec![("s", J::A(stmts)), ("t", term), ("cleanup", J::B(bb.is_cleanup))])
    }
}

fn dump_body<'tcx>(tcx: TyCtxt<'tcx>, did: DefId, body: &Body<'tcx>, stage: &str, krate: &str) -> String {
    let tenv = TypingEnv::post_analysis(tcx, did);
    let fx = Fx { tcx, body, did, tenv };
    let _ = fx.did;
    let (file, line, exp) = span_info(tcx, tcx.def_span(did));
    let dk = tcx.def_kind(did);
    let mut f: Vec<(&str, J)> = vec![
        ("kind", J::s("fn")),
        ("stage", J::s(stage)),
        ("crate", J::S(krate.to_string())),
        ("path", J::S(path(tcx, did))),
        ("def_kind", J::S(format!("{:?}", dk))),
        ("file", J::S(file)),
        ("line", J::I(line as i128)),
        ("exp", J::B(exp)),
        ("expk", J::S(exp_kind(tcx.def_span(did)))),
        ("argc", J::I(body.arg_count as i128)),
    ];
    // generic parameter names in substitution order (parents first): lets a call site's generic arguments be matched with
    // the callee's parameters when a generic helper is inlined
    if !matches!(dk, DefKind::Closure) {
        let mut names: Vec<J> = Vec::new();
        let mut chain = Vec::new();
        let mut g = tcx.generics_of(did);
        loop {
            chain.push(g);
            match g.parent {
                Some(p) => g = tcx.generics_of(p),
                None => break,
            }
        }
        for g in chain.iter().rev() {
            for prm in g.own_params.iter() {
                names.push(J::S(prm.name.to_string()));
            }
        }
        f.push(("generics", J::A(names)));
    }
    // parent (for closures: the enclosing item; for assoc fns: the impl)
    let parent = tcx.parent(did);
    f.push(("parent", J::S(path(tcx, parent))));
    if matches!(dk, DefKind::Closure) {
        let mut cur = did;
        while matches!(tcx.def_kind(cur), DefKind::Closure) {
            cur = tcx.parent(cur);
        }
        f.push(("owner", J::S(path(tcx, cur))));
        if let Some(ck) = tcx.coroutine_kind(did) {
            f.push(("coroutine", J::S(format!("{:?}", ck))));
        }
    }
    if matches!(dk, DefKind::AssocFn | DefKind::AssocConst { .. }) {
        if let Some(imp) = tcx.impl_of_assoc(did) {
            f.push(("impl_self", J::S(p(tcx.type_of(imp).instantiate_identity().skip_normalization()))));
            if let Some(tr) = tcx.impl_opt_trait_ref(imp) {
                let tr = tr.instantiate_identity().skip_normalization();
                f.push(("impl_trait", J::S(path(tcx, tr.def_id))));
                f.push(("impl_trait_ref", J::S(p(tr))));
            }
            f.push(("derived", J::B(tcx.is_automatically_derived(imp))));
        } else if let Some(tr) = tcx.trait_of_assoc(did) {
            f.push(("trait_default", J::S(path(tcx, tr))));
        }
        f.push(("name", J::S(tcx.item_name(did).to_string())));
    }
    if matches!(dk, DefKind::Fn | DefKind::AssocFn) {
        f.push(("vis", J::S(format!("{:?}", tcx.visibility(did)))));
        f.push(("is_async", J::B(tcx.asyncness(did).is_async())));
    }
    let locals: Vec<J> = body.local_decls.iter().map(|d| J::S(p(d.ty))).collect();
    f.push(("locals", J::A(locals)));
    let mut dbg = Vec::new();
    for v in &body.var_debug_info {
        if let mir::VarDebugInfoContents::Place(pl) = &v.value {
            dbg.push(J::arr(vec![J::S(v.name.to_string()), fx.place(pl)]));
        }
    }
    f.push(("vars", J::A(dbg)));
    let blocks: Vec<J> = body.basic_blocks.iter().map(|b| fx.block(b)).collect();
    f.push(("blocks", J::A(blocks)));
    let mut s = String::new();
    J::obj(f).write(&mut s);
    s
}

fn dump_types<'tcx>(tcx: TyCtxt<'tcx>, krate: &str, out: &mut Vec<String>) {
    for id in tcx.hir_free_items() {
        let did: DefId = id.owner_id.to_def_id();
        let dk = tcx.def_kind(did);
        match dk {
            DefKind::Struct | DefKind::Enum | DefKind::Union => {
                let def = tcx.adt_def(did);
                let (file, line, _) = span_info(tcx, tcx.def_span(did));
                let mut vars = Vec::new();
                for (vi, v) in def.variants().iter_enumerated() {
                    let discr = if def.is_enum() {
                        def.discriminant_for_variant(tcx, vi).val as i128
                    } else {
                        0
                    };
                    let fields: Vec<J> = v
                        .fields
                        .iter()
                        .map(|fd| {
                            J::obj(vec![
                                ("name", J::S(fd.name.to_string())),
                                ("ty", J::S(p(tcx.type_of(fd.did).instantiate_identity().skip_normalization()))),
                                ("vis", J::S(format!("{:?}", fd.vis))),
                            ])
                        })
                        .collect();
                    vars.push(J::obj(vec![
                        ("name", J::S(v.name.to_string())),
                        ("discr", J::I(discr)),
                        ("fields", J::A(fields)),
                    ]));
                }
                let mut s = String::new();
                J::obj(vec![
                    ("kind", J::s("adt")),
                    ("crate", J::S(krate.to_string())),
                    ("path", J::S(path(tcx, did))),
                    ("is_enum", J::B(def.is_enum())),
                    ("file", J::S(file)),
                    ("line", J::I(line as i128)),
                    ("variants", J::A(vars)),
                ])
                .write(&mut s);
                out.push(s);
            }
            DefKind::Impl { .. } => {
                let (file, line, exp) = span_info(tcx, tcx.def_span(did));
                let mut f: Vec<(&str, J)> = vec![
                    ("kind", J::s("impl")),
                    ("crate", J::S(krate.to_string())),
                    ("path", J::S(path(tcx, did))),
                    ("self", J::S(p(tcx.type_of(did).instantiate_identity().skip_normalization()))),
                    ("file", J::S(file)),
                    ("line", J::I(line as i128)),
                    ("exp", J::B(exp)),
                    ("derived", J::B(tcx.is_automatically_derived(did))),
                ];
                if let Some(tr) = tcx.impl_opt_trait_ref(did) {
                    let tr = tr.instantiate_identity().skip_normalization();
                    f.push(("trait", J::S(path(tcx, tr.def_id))));
                    f.push(("trait_ref", J::S(p(tr))));
                }
                let items: Vec<J> = tcx
                    .associated_items(did)
                    .in_definition_order()
                    .map(|it| {
                        J::obj(vec![
                            ("name", J::S(it.name().to_string())),
                            ("path", J::S(path(tcx, it.def_id))),
                            ("kind", J::S(format!("{:?}", it.tag()))),
                        ])
                    })
                    .collect();
                f.push(("items", J::A(items)));
                let mut s = String::new();
                J::obj(f).write(&mut s);
                out.push(s);
            }
            _ => {}
        }
    }
}

fn wanted(dk: DefKind) -> bool {
    matches!(
        dk,
        DefKind::Fn | DefKind::AssocFn | DefKind::Closure | DefKind::AssocConst { .. } | DefKind::Const { .. } | DefKind::Static { .. }
    )
}

impl rustc_driver::Callbacks for Cb {
    fn after_expansion<'tcx>(
        &mut self,
        _compiler: &rustc_interface::interface::Compiler,
        tcx: TyCtxt<'tcx>,
    ) -> Compilation {
        // pre-state-transform bodies of coroutines (async fns): mir_built, before it is stolen
        let krate = tcx.crate_name(LOCAL_CRATE).to_string();
        if std::env::var("MIRFACTS_OUT").is_err() {
            return Compilation::Continue;
        }
        let owners: Vec<LocalDefId> = tcx.hir_body_owners().collect();
        // Clone every coroutine body first: dumping one body resolves callees, which can force the coroutine witnesses of
        // *another* async fn (auto-trait checks on its future) and thereby steal that one's mir_built before we get to it.
        let mut bodies = Vec::new();
        for ldid in owners {
            let did = ldid.to_def_id();
            if !matches!(tcx.def_kind(did), DefKind::Closure) {
                continue;
            }
            if tcx.coroutine_kind(did).is_none() {
                continue;
            }
            let steal = tcx.mir_built(ldid);
            if steal.is_stolen() {
                eprintln!("mirfacts: mir_built of {:?} already stolen", did);
                continue;
            }
            let body = steal.borrow().clone();
            bodies.push((did, body));
        }
        for (did, body) in bodies.iter() {
            self.pre.push(dump_body(tcx, *did, body, "built", &krate));
        }
        Compilation::Continue
    }

    fn after_analysis<'tcx>(
        &mut self,
        _compiler: &rustc_interface::interface::Compiler,
        tcx: TyCtxt<'tcx>,
    ) -> Compilation {
        let outdir = match std::env::var("MIRFACTS_OUT") {
            Ok(d) => d,
            Err(_) => return Compilation::Continue,
        };
        let krate = tcx.crate_name(LOCAL_CRATE).to_string();
        let mut lines: Vec<String> = Vec::new();
        {
            let mut s = String::new();
            let _ = write!(s, "");
            J::obj(vec![
                ("kind", J::s("crate")),
                ("crate", J::S(krate.clone())),
                (
                    "cfg_test",
                    J::B(tcx.sess.opts.test),
                ),
                (
                    "overflow_checks",
                    J::B(tcx.sess.overflow_checks()),
                ),
            ])
            .write(&mut s);
            lines.push(s);
        }
        dump_types(tcx, &krate, &mut lines);
        lines.append(&mut self.pre);
        let owners: Vec<LocalDefId> = tcx.hir_body_owners().collect();
        for ldid in owners {
            let did = ldid.to_def_id();
            let dk = tcx.def_kind(did);
            if !wanted(dk) {
                continue;
            }
            match dk {
                DefKind::Fn | DefKind::AssocFn | DefKind::Closure => {
                    let body = tcx.optimized_mir(did);
                    lines.push(dump_body(tcx, did, body, "opt", &krate));
                    for (pi, pb) in tcx.promoted_mir(did).iter_enumerated() {
                        let mut l = dump_body(tcx, did, pb, "promoted", &krate);
                        // tag with the promoted index (prefix of the JSON object)
                        l.insert_str(1, &format!("\"promoted_index\":{},", pi.as_usize()));
                        lines.push(l);
                    }
                }
                _ => {
                    let body = tcx.mir_for_ctfe(did);
                    lines.push(dump_body(tcx, did, body, "ctfe", &krate));
                }
            }
        }
        let fname = format!("{}/{}-{}.jsonl", outdir, krate, std::process::id());
        let mut all = lines.join("\n");
        all.push('\n');
        std::fs::write(&fname, all).expect("write facts");
        Compilation::Continue
    }
}

fn main() {
    let mut args: Vec<String> = std::env::args().collect();
    // RUSTC_WORKSPACE_WRAPPER: argv[1] is the path of the real rustc
    if args.len() > 1 && (args[1].ends_with("rustc") || args[1].contains("/rustc")) {
        args.remove(1);
    }
    let mut cb = Cb { pre: Vec::new() };
    rustc_driver::run_compiler(&args, &mut cb);
}
