// gramfacts: parse a .pest grammar with pest_meta (the same front end pest_derive uses) and
// print its rule AST as JSON: {name, ty, expr}. The child-language computation is done by the
// python rule engine from this tree.
use pest_meta::ast::{Expr, Rule, RuleType};
use pest_meta::parser::{self, consume_rules};

fn esc(s: &str) -> String {
    let mut o = String::from("\"");
    for c in s.chars() {
        match c {
            '"' => o.push_str("\\\""),
            '\\' => o.push_str("\\\\"),
            '\n' => o.push_str("\\n"),
            '\r' => o.push_str("\\r"),
            '\t' => o.push_str("\\t"),
            c if (c as u32) < 0x20 => o.push_str(&format!("\\u{:04x}", c as u32)),
            c => o.push(c),
        }
    }
    o.push('"');
    o
}

fn expr(e: &Expr) -> String {
    match e {
        Expr::Str(s) => format!("{{\"k\":\"str\",\"v\":{}}}", esc(s)),
        Expr::Insens(s) => format!("{{\"k\":\"insens\",\"v\":{}}}", esc(s)),
        Expr::Range(a, b) => format!("{{\"k\":\"range\",\"a\":{},\"b\":{}}}", esc(a), esc(b)),
        Expr::Ident(s) => format!("{{\"k\":\"ident\",\"v\":{}}}", esc(s)),
        Expr::PeekSlice(a, b) => format!("{{\"k\":\"peekslice\",\"a\":{},\"b\":{}}}", a, b.map(|x| x.to_string()).unwrap_or("null".into())),
        Expr::PosPred(x) => format!("{{\"k\":\"pospred\",\"x\":{}}}", expr(x)),
        Expr::NegPred(x) => format!("{{\"k\":\"negpred\",\"x\":{}}}", expr(x)),
        Expr::Seq(a, b) => format!("{{\"k\":\"seq\",\"a\":{},\"b\":{}}}", expr(a), expr(b)),
        Expr::Choice(a, b) => format!("{{\"k\":\"choice\",\"a\":{},\"b\":{}}}", expr(a), expr(b)),
        Expr::Opt(x) => format!("{{\"k\":\"opt\",\"x\":{}}}", expr(x)),
        Expr::Rep(x) => format!("{{\"k\":\"rep\",\"x\":{}}}", expr(x)),
        Expr::RepOnce(x) => format!("{{\"k\":\"reponce\",\"x\":{}}}", expr(x)),
        Expr::RepExact(x, n) => format!("{{\"k\":\"repexact\",\"x\":{},\"n\":{}}}", expr(x), n),
        Expr::RepMin(x, n) => format!("{{\"k\":\"repmin\",\"x\":{},\"n\":{}}}", expr(x), n),
        Expr::RepMax(x, n) => format!("{{\"k\":\"repmax\",\"x\":{},\"n\":{}}}", expr(x), n),
        Expr::RepMinMax(x, a, b) => format!("{{\"k\":\"repminmax\",\"x\":{},\"a\":{},\"b\":{}}}", expr(x), a, b),
        Expr::Skip(v) => format!("{{\"k\":\"skip\",\"v\":[{}]}}", v.iter().map(|s| esc(s)).collect::<Vec<_>>().join(",")),
        Expr::Push(x) => format!("{{\"k\":\"push\",\"x\":{}}}", expr(x)),
        #[allow(unreachable_patterns)]
        other => format!("{{\"k\":\"other\",\"v\":{}}}", esc(&format!("{:?}", other))),
    }
}

fn main() {
    let path = std::env::args().nth(1).expect("usage: gramfacts <file.pest>");
    let src = std::fs::read_to_string(&path).expect("read grammar");
    let pairs = match parser::parse(parser::Rule::grammar_rules, &src) {
        Ok(p) => p,
        Err(e) => {
            eprintln!("grammar parse error: {}", e);
            std::process::exit(2);
        }
    };
    let rules: Vec<Rule> = match consume_rules(pairs) {
        Ok(r) => r,
        Err(es) => {
            for e in es {
                eprintln!("grammar error: {}", e);
            }
            std::process::exit(2);
        }
    };
    let mut out = Vec::new();
    for r in &rules {
        let ty = match r.ty {
            RuleType::Normal => "normal",
            RuleType::Silent => "silent",
            RuleType::Atomic => "atomic",
            RuleType::CompoundAtomic => "compound_atomic",
            RuleType::NonAtomic => "non_atomic",
        };
        out.push(format!("{{\"name\":{},\"ty\":\"{}\",\"expr\":{}}}", esc(&r.name), ty, expr(&r.expr)));
    }
    println!("[{}]", out.join(",\n"));
}
