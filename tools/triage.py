#!/usr/bin/env python3
"""print the unlisted violations of the last run of a property as JSON skeletons for tables"""
import json, sys
ev = json.load(open('/verif/evidence/%s.json' % sys.argv[1]))
for v in ev['coverage']['unlisted_violations']:
    print(json.dumps({"key": v['rule'] + '|' + v['key'], "where": v['where'], "detail": v['detail'][:160]}))
