#!/usr/bin/env python3
"""Confirm a seeded change and run every check against it.

usage: seedcheck.py <dir with patch.diff + demo.diff> [--checks C01,C02,...] [--skip-tests] [--benign]

--benign: the directory holds a behaviour-preserving refactoring (patch.diff only): step 1 and step 4 are run and every check
is expected to stay silent (exit 0); `alarms` lists the checks that did not.

Everything happens in a scratch git worktree of /repo under /tmp (never in /repo), removed at the end:
  1. patch applied                -> whole workspace test suite must pass           (the tests do not notice it)
  2. patch + demo applied         -> the suite must fail, and only in tests the demo adds
  3. demo only (patch reverted)   -> the suite must pass                            (the demo passes on the original)
  4. patch only                   -> ./check <ID> for every property; unlisted violations are collected
Prints a JSON summary on stdout (and progress on stderr).
"""
import json
import os
import re
import shutil
import subprocess
import sys
import tempfile

VERIF = os.path.dirname(os.path.dirname(os.path.abspath(__file__)))
REPO = "/repo"
TARGET = os.environ.get("SEEDCHK_TARGET", "/tmp/seedchk-target")
FLAKY = ("composite_contains_some",)


def sh(cmd, cwd, env=None):
    e = dict(os.environ, CARGO_NET_OFFLINE="true")
    if env:
        e.update(env)
    return subprocess.run(cmd, cwd=cwd, env=e, capture_output=True, text=True)


def run_tests(wt):
    r = sh(["cargo", "test", "--workspace", "--no-fail-fast", "--offline"], wt, {"CARGO_TARGET_DIR": TARGET})
    out = r.stdout + r.stderr
    failed = sorted(set(re.findall(r"^test (\S+) \.\.\. FAILED", out, re.M)))
    passed = len(re.findall(r"^test \S+ \.\.\. ok", out, re.M))
    build_err = "error: could not compile" in out or "error[E" in out
    failed = [f for f in failed if not any(x in f for x in FLAKY)]
    return {"passed": passed, "failed": failed, "build_error": build_err, "tail": out[-1500:] if (build_err) else ""}


def main():
    d = os.path.abspath(sys.argv[1])
    checks = ["C%02d" % i for i in range(1, 21)]
    skip_tests = "--skip-tests" in sys.argv
    benign = "--benign" in sys.argv
    for i, a in enumerate(sys.argv):
        if a == "--checks":
            checks = sys.argv[i + 1].split(",")
    base = tempfile.mkdtemp(prefix="tx3seed-", dir="/tmp")
    wt = os.path.join(base, "wt")
    evd = os.path.join(base, "evidence")
    os.makedirs(evd)
    summary = {"dir": d}
    try:
        for attempt in range(6):
            # concurrent `git worktree add` calls contend for a lock in /repo/.git: retry
            r0 = subprocess.run(["git", "-C", REPO, "worktree", "add", "--detach", "-q", wt, "HEAD"], capture_output=True, text=True)
            if r0.returncode == 0:
                break
            import time as _t
            _t.sleep(1.5 * (attempt + 1))
        else:
            raise RuntimeError("git worktree add failed: " + r0.stderr[-300:])
        patch = os.path.join(d, "patch.diff")
        demo = os.path.join(d, "demo.diff")
        r = sh(["git", "apply", patch], wt)
        if r.returncode != 0:
            summary["error"] = "patch does not apply: " + r.stderr
            print(json.dumps(summary, indent=1))
            return 1
        if not skip_tests:
            print("[1] suite with patch", file=sys.stderr)
            summary["suite_with_patch"] = run_tests(wt)
            r = sh(["git", "apply", demo], wt) if not benign else None
            if benign:
                pass
            elif r.returncode != 0:
                summary["error"] = "demo does not apply on patched tree: " + r.stderr
            else:
                print("[2] suite with patch+demo", file=sys.stderr)
                summary["suite_with_patch_and_demo"] = run_tests(wt)
                sh(["git", "apply", "-R", patch], wt)
                print("[3] suite with demo only", file=sys.stderr)
                summary["suite_with_demo_only"] = run_tests(wt)
                # back to patch only
                sh(["git", "apply", "-R", demo], wt)
                sh(["git", "apply", patch], wt)
        st = sh(["git", "status", "--porcelain"], wt).stdout
        summary["worktree_status_for_checks"] = st.split("\n")[:20]
        print("[4] checks", file=sys.stderr)
        env = {"VERIF_REPO": wt, "VERIF_EVIDENCE_DIR": evd}
        res = {}
        for c in checks:
            r = sh([os.path.join(VERIF, "check"), c, "--tier", "quick"], VERIF, env)
            viol = []
            for fn in sorted(os.listdir(evd)):
                if fn.startswith(c + ".violation-"):
                    v = json.load(open(os.path.join(evd, fn)))
                    viol.append({"rule": v.get("rule"), "key": v.get("key"), "detail": v.get("detail") or v.get("by"), "where": v.get("where")})
                    os.remove(os.path.join(evd, fn))
            res[c] = {"exit": r.returncode, "violations": viol}
            if r.returncode == 2:
                res[c]["broken"] = (r.stdout + r.stderr)[-800:]
            print("   %s exit %d %s" % (c, r.returncode, [v["rule"] for v in viol]), file=sys.stderr)
        summary["checks"] = res
        summary["caught_by"] = [c for c in checks if res[c]["exit"] == 1]
        summary["broken_checks"] = [c for c in checks if res[c]["exit"] == 2]
        if benign:
            summary["alarms"] = [c for c in checks if res[c]["exit"] != 0]
    finally:
        subprocess.run(["git", "-C", REPO, "worktree", "remove", "--force", wt], capture_output=True)
        subprocess.run(["git", "-C", REPO, "worktree", "prune"], capture_output=True)
        shutil.rmtree(base, ignore_errors=True)
    print(json.dumps(summary, indent=1))
    return 0


if __name__ == "__main__":
    sys.exit(main())
