#!/bin/sh
# Build the analysis tools from files on disk only (offline).
set -e
cd "$(dirname "$0")"
export CARGO_NET_OFFLINE=true
(cd tools/mirfacts && cargo build --offline 2>&1 | tail -3)
(cd tools/gramfacts && cargo build --offline 2>&1 | tail -3)
# warm the fact cache for the current tree (dependencies are checked once here)
python3 -m rules.facts --warm || true
